#!/bin/bash
# tools/confirm.sh <candidate dir with patch.diff + demo_test.go> <name>
# Confirms a seeded change in a fresh git worktree of /repo (removed afterwards):
#   build ok, demo passes WITHOUT the change, demo fails WITH it, full pinned suite passes WITH it.
# Prints one summary line: <name> build=ok demo_without=pass demo_with=fail suite=pass
C=$1; N=$2
export GOFLAGS=-mod=mod GOPROXY=off GOSUMDB=off GOTOOLCHAIN=local
W=/tmp/confirm/$N
rm -rf $W; mkdir -p /tmp/confirm
git -C /repo worktree add -q --detach $W HEAD || { echo "$N WORKTREE-FAILED"; exit 2; }
trap 'git -C /repo worktree remove --force $W 2>/dev/null; rm -rf $W' EXIT
place=$(head -1 $C/demo_test.go | sed -n 's|^// place in: *||p' | tr -d ' \r')
[ -z "$place" ] && { echo "$N NO-PLACE-LINE"; exit 2; }
pkg=./${place%/}
cd $W
cp $C/demo_test.go $pkg/zz_demo_seed_test.go
dw=$(go test -vet=off -count=1 -timeout 20m $pkg 2>&1); r0=$?
[ $r0 -eq 0 ] && demo_without=pass || demo_without=FAIL
rm -f $pkg/zz_demo_seed_test.go
git apply $C/patch.diff 2>/dev/null || patch -p1 -s < $C/patch.diff || { echo "$N APPLY-FAILED"; exit 2; }
if git status --short | grep -E '_test\.go|^.. examples/' >/dev/null; then touched="TOUCHES-TESTS-OR-EXAMPLES"; else touched=""; fi
go build ./... >/dev/null 2>&1 && build=ok || build=FAIL
cp $C/demo_test.go $pkg/zz_demo_seed_test.go
dd=$(go test -vet=off -count=1 -timeout 20m $pkg 2>&1); r1=$?
[ $r1 -ne 0 ] && demo_with=fail || demo_with=PASSES
echo "$dd" | grep -q "build failed" && demo_with=BUILD-FAILED
rm -f $pkg/zz_demo_seed_test.go
st=$(go test -mod=mod -vet=off -count=1 -timeout 60m ./... 2>&1); r2=$?
[ $r2 -eq 0 ] && suite=pass || suite=FAIL
echo "$N build=$build demo_without=$demo_without demo_with=$demo_with suite=$suite $touched"
if [ "$demo_without" != pass ]; then echo "$dw" | tail -15; fi
if [ "$suite" != pass ]; then echo "$st" | grep -v '^ok' | tail -15; fi
