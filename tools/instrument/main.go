// Command instrument regenerates the build overlay used by every check.
//
// It reads the non-test Go files of the goNEAT packages under test from the
// repository's *current working tree*, rewrites them (random source, sync,
// atomics, goroutine spawn and channel operations go through the verif shims;
// scheduling points and shared-field access events are added), writes the
// rewritten copies under <out>/src and emits <out>/overlay.json which maps
//   - every rewritten repository file to its rewritten copy,
//   - the shim packages to virtual directories inside the goNEAT module,
//   - one accessor file per package (exports of private operators).
//
// Nothing in the repository is modified. Only the standard library is used.
package main

import (
	"bytes"
	"encoding/json"
	"flag"
	"fmt"
	"go/ast"
	"go/parser"
	"go/printer"
	"go/token"
	"os"
	"path/filepath"
	"sort"
	"strconv"
	"strings"
)

const modPath = "github.com/yaricom/goNEAT/v4"

var (
	repo  = flag.String("repo", "/repo", "repository root")
	verif = flag.String("verif", "/verif", "verification root")
	out   = flag.String("out", "/verif/build/overlay", "output directory")
)

// packages (relative to repo root) whose sources are rewritten
var pkgs = []string{"neat", "neat/math", "neat/genetics", "neat/network", "experiment"}

// import rewrites: original path -> (shim dir name, default local name)
var importMap = map[string][2]string{
	"math/rand":   {"vrand", "rand"},
	"sync":        {"vsync", "sync"},
	"sync/atomic": {"vatomic", "atomic"},
	"time":        {"vtime", "time"},
}

// shared fields whose accesses are reported to the happens-before monitor
var anchoredFields = map[string]bool{"innovations": true, "nextInnovNum": true, "nextNodeId": true}

// collectOptionWrites: field names assigned through a function parameter of type *neat.Options in the
// genetics package (the options object is shared by all reproduction goroutines and is meant to be
// read-only there). Such fields join the anchored set, so that every read and write of them is
// reported to the happens-before monitor. The unchanged library has none.
func collectOptionWrites() {
	dir := filepath.Join(*repo, "neat/genetics")
	ents, _ := os.ReadDir(dir)
	isOptsParam := func(id *ast.Ident) bool {
		if id == nil || id.Obj == nil {
			return false
		}
		f, ok := id.Obj.Decl.(*ast.Field)
		if !ok {
			return false
		}
		st, ok := f.Type.(*ast.StarExpr)
		if !ok {
			return false
		}
		se, ok := st.X.(*ast.SelectorExpr)
		if !ok {
			return false
		}
		pk, ok := se.X.(*ast.Ident)
		return ok && pk.Name == "neat" && se.Sel.Name == "Options"
	}
	for _, e := range ents {
		n := e.Name()
		if e.IsDir() || !strings.HasSuffix(n, ".go") || strings.HasSuffix(n, "_test.go") {
			continue
		}
		f, err := parser.ParseFile(token.NewFileSet(), filepath.Join(dir, n), nil, 0)
		if err != nil {
			continue
		}
		note := func(l ast.Expr) {
			if se, ok := l.(*ast.SelectorExpr); ok {
				if id, ok := se.X.(*ast.Ident); ok && isOptsParam(id) {
					anchoredFields[se.Sel.Name] = true
				}
			}
		}
		ast.Inspect(f, func(nd ast.Node) bool {
			switch x := nd.(type) {
			case *ast.AssignStmt:
				if x.Tok != token.DEFINE {
					for _, l := range x.Lhs {
						note(l)
					}
				}
			case *ast.IncDecStmt:
				note(x.X)
			}
			return true
		})
	}
}

func main() {
	flag.Parse()
	collectOptionWrites()
	overlay := map[string]string{}
	if err := os.RemoveAll(*out); err != nil {
		fatal(err)
	}
	for _, p := range pkgs {
		dir := filepath.Join(*repo, p)
		ents, err := os.ReadDir(dir)
		if err != nil {
			fatal(err)
		}
		curPkgVars = collectPkgVars(dir, ents)
		collectMapDecls(dir, ents)
		for _, e := range ents {
			n := e.Name()
			if e.IsDir() || !strings.HasSuffix(n, ".go") || strings.HasSuffix(n, "_test.go") {
				continue
			}
			src := filepath.Join(dir, n)
			dst := filepath.Join(*out, "src", p, n)
			changed, err := rewriteFile(src, dst, p)
			if err != nil {
				fatal(fmt.Errorf("%s: %v", src, err))
			}
			if changed {
				overlay[src] = dst
			}
		}
	}
	// shims: every file of /verif/shims/<name> appears as <repo>/neat/<name>/<file>
	shimRoot := filepath.Join(*verif, "shims")
	shims, err := os.ReadDir(shimRoot)
	if err != nil {
		fatal(err)
	}
	for _, s := range shims {
		if !s.IsDir() {
			continue
		}
		files, _ := os.ReadDir(filepath.Join(shimRoot, s.Name()))
		for _, f := range files {
			if strings.HasSuffix(f.Name(), ".go") {
				overlay[filepath.Join(*repo, "neat", s.Name(), f.Name())] = filepath.Join(shimRoot, s.Name(), f.Name())
			}
		}
	}
	// accessors: /verif/accessors/<pkg with / replaced by _>.go -> <repo>/<pkg>/zz_verif_export.go
	accRoot := filepath.Join(*verif, "accessors")
	accs, _ := os.ReadDir(accRoot)
	for _, a := range accs {
		if !strings.HasSuffix(a.Name(), ".go") {
			continue
		}
		pkg := strings.ReplaceAll(strings.TrimSuffix(a.Name(), ".go"), "__", "/")
		overlay[filepath.Join(*repo, pkg, "zz_verif_export.go")] = filepath.Join(accRoot, a.Name())
	}
	js, _ := json.MarshalIndent(map[string]interface{}{"Replace": overlay}, "", " ")
	if err := os.WriteFile(filepath.Join(*out, "overlay.json"), js, 0o644); err != nil {
		fatal(err)
	}
	keys := make([]string, 0, len(overlay))
	for k := range overlay {
		keys = append(keys, k)
	}
	sort.Strings(keys)
	_ = os.WriteFile(filepath.Join(*out, "map_range_sites"), []byte(strconv.Itoa(MapRangeSites)), 0o644)
	fmt.Printf("instrument: %d overlay entries written to %s (%d range-over-map statements rewritten)\n", len(keys), filepath.Join(*out, "overlay.json"), MapRangeSites)
}

// curPkgVars: names of the package-level variables of the package being rewritten. Every
// mention of one is reported to the happens-before monitor (a write when it is the root of an
// assignment target), so that mutable state hoisted to package scope is watched like the
// anchored fields. The event's object is the variable's address, so a local that shadows the
// name produces events on its own (thread-private) address and cannot raise an alarm.
var curPkgVars map[string]bool

func collectPkgVars(dir string, ents []os.DirEntry) map[string]bool {
	vars := map[string]bool{}
	for _, e := range ents {
		n := e.Name()
		if e.IsDir() || !strings.HasSuffix(n, ".go") || strings.HasSuffix(n, "_test.go") {
			continue
		}
		f, err := parser.ParseFile(token.NewFileSet(), filepath.Join(dir, n), nil, 0)
		if err != nil {
			continue
		}
		for _, d := range f.Decls {
			gd, ok := d.(*ast.GenDecl)
			if !ok || gd.Tok != token.VAR {
				continue
			}
			for _, sp := range gd.Specs {
				if vs, ok := sp.(*ast.ValueSpec); ok {
					for _, id := range vs.Names {
						if id.Name != "_" {
							vars[id.Name] = true
						}
					}
				}
			}
		}
	}
	return vars
}

func fatal(err error) {
	fmt.Fprintln(os.Stderr, "instrument:", err)
	os.Exit(2)
}

type rewriter struct {
	fset       *token.FileSet
	file       *ast.File
	pkg        string
	needSched  bool
	needMap    bool
	changed    bool
	tmpCounter int
}

func rewriteFile(src, dst, pkg string) (bool, error) {
	fset := token.NewFileSet()
	data, err := os.ReadFile(src)
	if err != nil {
		return false, err
	}
	// build constraints would be lost with the comments; refuse rather than guess
	if bytes.Contains(data, []byte("//go:build")) || bytes.Contains(data, []byte("// +build")) {
		return false, fmt.Errorf("unsupported construct: build constraint in instrumented file")
	}
	f, err := parser.ParseFile(fset, src, data, 0) // comments dropped on purpose (stable printing after edits)
	if err != nil {
		return false, err
	}
	r := &rewriter{fset: fset, file: f, pkg: pkg}
	topLevelSpecs = map[interface{}]bool{}
	for _, d := range f.Decls {
		if gd, ok := d.(*ast.GenDecl); ok && gd.Tok == token.VAR {
			for _, sp := range gd.Specs {
				topLevelSpecs[sp] = true
			}
		}
	}
	r.rewriteImports()
	r.rewriteMapRanges()
	if pkg == "neat/genetics" {
		r.rewriteConcurrency()
		r.addPopulationPoints()
	}
	anchorFields = pkg == "neat/genetics"
	r.addAccessEvents()
	if r.needSched {
		r.addImport("vsched", modPath+"/neat/vsched")
	}
	if r.needMap {
		r.addImport("vmap", modPath+"/neat/vmap")
	}
	if !r.changed {
		return false, nil
	}
	var buf bytes.Buffer
	fmt.Fprintf(&buf, "// Code generated by /verif/tools/instrument from %s; DO NOT EDIT.\n\n", src)
	if err := printer.Fprint(&buf, fset, f); err != nil {
		return false, err
	}
	if err := os.MkdirAll(filepath.Dir(dst), 0o755); err != nil {
		return false, err
	}
	return true, os.WriteFile(dst, buf.Bytes(), 0o644)
}

func (r *rewriter) rewriteImports() {
	for _, imp := range r.file.Imports {
		p, _ := strconv.Unquote(imp.Path.Value)
		if m, ok := importMap[p]; ok {
			imp.Path.Value = strconv.Quote(modPath + "/neat/" + m[0])
			if imp.Name == nil {
				imp.Name = ast.NewIdent(m[1])
			}
			r.changed = true
		}
	}
}

func (r *rewriter) addImport(name, path string) {
	for _, imp := range r.file.Imports {
		if p, _ := strconv.Unquote(imp.Path.Value); p == path {
			return
		}
	}
	spec := &ast.ImportSpec{Name: ast.NewIdent(name), Path: &ast.BasicLit{Kind: token.STRING, Value: strconv.Quote(path)}}
	for _, d := range r.file.Decls {
		if gd, ok := d.(*ast.GenDecl); ok && gd.Tok == token.IMPORT {
			gd.Specs = append(gd.Specs, spec)
			if !gd.Lparen.IsValid() {
				gd.Lparen = gd.Pos()
				gd.Rparen = gd.End()
			}
			r.file.Imports = append(r.file.Imports, spec)
			return
		}
	}
	gd := &ast.GenDecl{Tok: token.IMPORT, Specs: []ast.Spec{spec}}
	r.file.Decls = append([]ast.Decl{gd}, r.file.Decls...)
	r.file.Imports = append(r.file.Imports, spec)
}

func sel(x, s string) *ast.SelectorExpr {
	return &ast.SelectorExpr{X: ast.NewIdent(x), Sel: ast.NewIdent(s)}
}

// ---- iteration over maps -------------------------------------------------------

// The order in which a range statement visits a map is chosen by the Go runtime per loop and cannot be
// intercepted at run time. The instrumenter therefore rewrites every range over an expression that is
// SYNTACTICALLY known to be a map
//
//	for k, v := range m { body }   ->   for _, __vkN := range vmap.Keys(m) { k, v := __vkN, m[__vkN]; body }
//
// (an entry deleted during the loop is skipped, as the language demands), so that the order becomes an
// answer of the harness (ascending / descending / rotated keys). "Syntactically known": the range
// expression is a parameter, local or package variable declared with a map type (or a named map type
// of the package), a local defined from make(map..), a map literal or a call of a package function
// whose result at that position is a map, or a selector of a struct field that is declared with a map
// type in this package (and with no other type under the same name). A map reached any other way keeps
// the runtime's order (C17 still repeats every execution).
var (
	mapTypeNames map[string]bool   // type T map[..]..
	mapFields    map[string]bool   // struct fields of a map type
	otherFields  map[string]bool   // struct fields of any other type
	mapFuncs     map[string][]bool // function / method name -> which results are maps
	mapPkgVars   map[string]bool
)

func isMapType(t ast.Expr) bool {
	switch x := t.(type) {
	case *ast.MapType:
		return true
	case *ast.Ident:
		return mapTypeNames[x.Name]
	case *ast.ParenExpr:
		return isMapType(x.X)
	}
	return false
}

func collectMapDecls(dir string, ents []os.DirEntry) {
	mapTypeNames, mapFields, otherFields, mapFuncs, mapPkgVars = map[string]bool{}, map[string]bool{}, map[string]bool{}, map[string][]bool{}, map[string]bool{}
	var files []*ast.File
	for _, e := range ents {
		n := e.Name()
		if e.IsDir() || !strings.HasSuffix(n, ".go") || strings.HasSuffix(n, "_test.go") {
			continue
		}
		if f, err := parser.ParseFile(token.NewFileSet(), filepath.Join(dir, n), nil, 0); err == nil {
			files = append(files, f)
		}
	}
	for _, f := range files {
		for _, d := range f.Decls {
			if gd, ok := d.(*ast.GenDecl); ok && gd.Tok == token.TYPE {
				for _, sp := range gd.Specs {
					if ts, ok := sp.(*ast.TypeSpec); ok {
						if _, ok := ts.Type.(*ast.MapType); ok {
							mapTypeNames[ts.Name.Name] = true
						}
					}
				}
			}
		}
	}
	for _, f := range files {
		ast.Inspect(f, func(n ast.Node) bool {
			if st, ok := n.(*ast.StructType); ok && st.Fields != nil {
				for _, fl := range st.Fields.List {
					for _, id := range fl.Names {
						if isMapType(fl.Type) {
							mapFields[id.Name] = true
						} else {
							otherFields[id.Name] = true
						}
					}
				}
			}
			return true
		})
		for _, d := range f.Decls {
			switch x := d.(type) {
			case *ast.FuncDecl:
				if x.Type.Results == nil {
					continue
				}
				var res []bool
				any := false
				for _, fl := range x.Type.Results.List {
					k := len(fl.Names)
					if k == 0 {
						k = 1
					}
					for i := 0; i < k; i++ {
						res = append(res, isMapType(fl.Type))
						any = any || isMapType(fl.Type)
					}
				}
				if any {
					if old, dup := mapFuncs[x.Name.Name]; dup && fmt.Sprint(old) != fmt.Sprint(res) {
						res = make([]bool, len(res)) // two functions of one name disagree: trust neither
					}
					mapFuncs[x.Name.Name] = res
				}
			case *ast.GenDecl:
				if x.Tok == token.VAR {
					for _, sp := range x.Specs {
						if vs, ok := sp.(*ast.ValueSpec); ok {
							for i, id := range vs.Names {
								if (vs.Type != nil && isMapType(vs.Type)) || (i < len(vs.Values) && isMapValue(vs.Values[i])) {
									mapPkgVars[id.Name] = true
								}
							}
						}
					}
				}
			}
		}
	}
}

// isMapValue: make(map..), make(T), map[..]..{..}, T{..} with T a named map type
func isMapValue(e ast.Expr) bool {
	switch x := e.(type) {
	case *ast.CallExpr:
		if id, ok := x.Fun.(*ast.Ident); ok && id.Name == "make" && len(x.Args) > 0 {
			return isMapType(x.Args[0])
		}
	case *ast.CompositeLit:
		return x.Type != nil && isMapType(x.Type)
	case *ast.ParenExpr:
		return isMapValue(x.X)
	}
	return false
}

func calleeName(c *ast.CallExpr) string {
	switch f := c.Fun.(type) {
	case *ast.Ident:
		return f.Name
	case *ast.SelectorExpr:
		return f.Sel.Name
	}
	return ""
}

// isKnownMap decides (syntactically) whether an expression denotes a map. depth bounds the chase
// through x := y definitions.
func isKnownMap(e ast.Expr, depth int) bool {
	if depth > 4 {
		return false
	}
	switch x := e.(type) {
	case *ast.ParenExpr:
		return isKnownMap(x.X, depth)
	case *ast.CallExpr:
		if isMapValue(x) {
			return true
		}
		if res := mapFuncs[calleeName(x)]; len(res) == 1 && res[0] {
			return true
		}
	case *ast.CompositeLit:
		return isMapValue(x)
	case *ast.SelectorExpr:
		return mapFields[x.Sel.Name] && !otherFields[x.Sel.Name]
	case *ast.Ident:
		if x.Obj == nil {
			return mapPkgVars[x.Name]
		}
		switch d := x.Obj.Decl.(type) {
		case *ast.Field:
			return isMapType(d.Type)
		case *ast.ValueSpec:
			if d.Type != nil {
				return isMapType(d.Type)
			}
			for i, id := range d.Names {
				if id.Name == x.Name && i < len(d.Values) {
					return isKnownMap(d.Values[i], depth+1)
				}
			}
		case *ast.AssignStmt:
			for i, l := range d.Lhs {
				if id, ok := l.(*ast.Ident); ok && id.Name == x.Name {
					if len(d.Rhs) == len(d.Lhs) {
						return isKnownMap(d.Rhs[i], depth+1)
					}
					if len(d.Rhs) == 1 {
						if call, ok := d.Rhs[0].(*ast.CallExpr); ok {
							if res := mapFuncs[calleeName(call)]; i < len(res) {
								return res[i]
							}
						}
					}
				}
			}
		}
	}
	return false
}

// pureExpr: evaluating the expression twice is harmless (identifiers and field selections only)
func pureExpr(e ast.Expr) bool {
	switch x := e.(type) {
	case *ast.Ident:
		return true
	case *ast.SelectorExpr:
		return pureExpr(x.X)
	case *ast.ParenExpr:
		return pureExpr(x.X)
	case *ast.StarExpr:
		return pureExpr(x.X)
	}
	return false
}

// MapRangeSites counts the rewritten range statements of the whole run (printed by main).
var MapRangeSites, MapRangeSkipped int

func (r *rewriter) rewriteMapRanges() {
	ast.Inspect(r.file, func(n ast.Node) bool {
		rs, ok := n.(*ast.RangeStmt)
		if !ok || !isKnownMap(rs.X, 0) {
			return true
		}
		if !pureExpr(rs.X) {
			// a map-valued call or literal: evaluating it twice could change behaviour, so the statement is left
			// alone (the runtime's order stays; C17's repetition is what remains for it)
			MapRangeSkipped++
			return true
		}
		r.tmpCounter++
		kv := ast.NewIdent(fmt.Sprintf("__vk%d", r.tmpCounter))
		m := rs.X
		var pre []ast.Stmt
		// an entry deleted while the loop runs is not visited
		pre = append(pre, &ast.IfStmt{
			Init: &ast.AssignStmt{Lhs: []ast.Expr{ast.NewIdent("_"), ast.NewIdent("__vpresent")}, Tok: token.DEFINE, Rhs: []ast.Expr{&ast.IndexExpr{X: m, Index: kv}}},
			Cond: &ast.UnaryExpr{Op: token.NOT, X: ast.NewIdent("__vpresent")},
			Body: &ast.BlockStmt{List: []ast.Stmt{&ast.BranchStmt{Tok: token.CONTINUE}}}})
		var lhs, rhs []ast.Expr
		blank := func(e ast.Expr) bool {
			if e == nil {
				return true
			}
			id, ok := e.(*ast.Ident)
			return ok && id.Name == "_"
		}
		if !blank(rs.Key) {
			lhs, rhs = append(lhs, rs.Key), append(rhs, ast.Expr(kv))
		}
		if !blank(rs.Value) {
			lhs, rhs = append(lhs, rs.Value), append(rhs, ast.Expr(&ast.IndexExpr{X: m, Index: kv}))
		}
		if len(lhs) > 0 {
			pre = append(pre, &ast.AssignStmt{Lhs: lhs, Tok: rs.Tok, Rhs: rhs})
		}
		rs.Key, rs.Value, rs.Tok = ast.NewIdent("_"), kv, token.DEFINE
		rs.X = &ast.CallExpr{Fun: sel("vmap", "Keys"), Args: []ast.Expr{m}}
		rs.Body.List = append(pre, rs.Body.List...)
		r.needMap, r.changed = true, true
		MapRangeSites++
		return true
	})
}

// ---- goroutines and channels -------------------------------------------------

// rewriteConcurrency rewrites, inside every function body:
//
//	go f(a, b)        -> { t0, t1 := a, b; vsched.Go(func() { f(t0, t1) }) }
//	ch <- v           -> vsched.Send(ch, v)
//	close(ch)         -> vsched.Close(ch)
//	for v := range ch -> for { v, ok := vsched.Recv(ch); if !ok { break }; ... }   (ch made by make(chan ..) in the same function)
//	v := <-ch / <-ch on such channels -> vsched.Recv1(ch)
func (r *rewriter) rewriteConcurrency() {
	for _, d := range r.file.Decls {
		fd, ok := d.(*ast.FuncDecl)
		if !ok || fd.Body == nil {
			continue
		}
		chans := map[string]bool{}
		ast.Inspect(fd.Body, func(n ast.Node) bool {
			as, ok := n.(*ast.AssignStmt)
			if !ok || len(as.Lhs) != len(as.Rhs) {
				return true
			}
			for i, rhs := range as.Rhs {
				if call, ok := rhs.(*ast.CallExpr); ok {
					if id, ok := call.Fun.(*ast.Ident); ok && id.Name == "make" && len(call.Args) > 0 {
						if _, ok := call.Args[0].(*ast.ChanType); ok {
							if lid, ok := as.Lhs[i].(*ast.Ident); ok {
								chans[lid.Name] = true
								if len(call.Args) < 2 {
									fatal(fmt.Errorf("unsupported construct: unbuffered channel %q in %s", lid.Name, fd.Name.Name))
								}
							}
						}
					}
				}
			}
			return true
		})
		r.rewriteBlock(fd.Body, chans)
	}
}

func (r *rewriter) rewriteBlock(b *ast.BlockStmt, chans map[string]bool) {
	if b == nil {
		return
	}
	for i, st := range b.List {
		b.List[i] = r.rewriteStmt(st, chans)
	}
}

func (r *rewriter) rewriteStmt(st ast.Stmt, chans map[string]bool) ast.Stmt {
	switch s := st.(type) {
	case *ast.GoStmt:
		r.needSched, r.changed = true, true
		// rewrite inside the function literal first
		if fl, ok := s.Call.Fun.(*ast.FuncLit); ok {
			r.rewriteBlock(fl.Body, chans)
		}
		var lhs, rhs []ast.Expr
		args := make([]ast.Expr, len(s.Call.Args))
		for i, a := range s.Call.Args {
			if bl, ok := a.(*ast.BasicLit); ok { // untyped constants stay in place
				args[i] = bl
				continue
			}
			r.tmpCounter++
			name := fmt.Sprintf("__va%d", r.tmpCounter)
			lhs = append(lhs, ast.NewIdent(name))
			rhs = append(rhs, a)
			args[i] = ast.NewIdent(name)
		}
		inner := &ast.CallExpr{Fun: s.Call.Fun, Args: args, Ellipsis: s.Call.Ellipsis}
		lit := &ast.FuncLit{Type: &ast.FuncType{Params: &ast.FieldList{}}, Body: &ast.BlockStmt{List: []ast.Stmt{&ast.ExprStmt{X: inner}}}}
		goCall := &ast.ExprStmt{X: &ast.CallExpr{Fun: sel("vsched", "Go"), Args: []ast.Expr{lit}}}
		blk := &ast.BlockStmt{}
		if len(lhs) > 0 {
			blk.List = append(blk.List, &ast.AssignStmt{Lhs: lhs, Tok: token.DEFINE, Rhs: rhs})
		}
		blk.List = append(blk.List, goCall)
		return blk
	case *ast.SendStmt:
		r.needSched, r.changed = true, true
		return &ast.ExprStmt{X: &ast.CallExpr{Fun: sel("vsched", "Send"), Args: []ast.Expr{s.Chan, s.Value}}}
	case *ast.ExprStmt:
		if call, ok := s.X.(*ast.CallExpr); ok {
			if id, ok := call.Fun.(*ast.Ident); ok && id.Name == "close" && len(call.Args) == 1 {
				r.needSched, r.changed = true, true
				return &ast.ExprStmt{X: &ast.CallExpr{Fun: sel("vsched", "Close"), Args: call.Args}}
			}
			if fl, ok := call.Fun.(*ast.FuncLit); ok {
				r.rewriteBlock(fl.Body, chans)
			}
		}
		if ue, ok := s.X.(*ast.UnaryExpr); ok && ue.Op == token.ARROW {
			if id, ok := ue.X.(*ast.Ident); ok && chans[id.Name] {
				r.needSched, r.changed = true, true
				return &ast.ExprStmt{X: &ast.CallExpr{Fun: sel("vsched", "Recv1"), Args: []ast.Expr{ue.X}}}
			}
		}
		return s
	case *ast.AssignStmt:
		for i, rhs := range s.Rhs {
			if ue, ok := rhs.(*ast.UnaryExpr); ok && ue.Op == token.ARROW {
				if id, ok := ue.X.(*ast.Ident); ok && chans[id.Name] {
					r.needSched, r.changed = true, true
					fn := "Recv1"
					if len(s.Lhs) == 2 && len(s.Rhs) == 1 {
						fn = "Recv"
					}
					s.Rhs[i] = &ast.CallExpr{Fun: sel("vsched", fn), Args: []ast.Expr{ue.X}}
				}
			}
			if fl, ok := rhs.(*ast.FuncLit); ok {
				r.rewriteBlock(fl.Body, chans)
			}
		}
		return s
	case *ast.RangeStmt:
		r.rewriteBlock(s.Body, chans)
		if id, ok := s.X.(*ast.Ident); ok && chans[id.Name] {
			r.needSched, r.changed = true, true
			var v ast.Expr = ast.NewIdent("_")
			if s.Key != nil {
				v = s.Key
			}
			r.tmpCounter++
			okName := fmt.Sprintf("__ok%d", r.tmpCounter)
			recv := &ast.AssignStmt{Lhs: []ast.Expr{v, ast.NewIdent(okName)}, Tok: token.DEFINE,
				Rhs: []ast.Expr{&ast.CallExpr{Fun: sel("vsched", "Recv"), Args: []ast.Expr{s.X}}}}
			brk := &ast.IfStmt{Cond: &ast.UnaryExpr{Op: token.NOT, X: ast.NewIdent(okName)},
				Body: &ast.BlockStmt{List: []ast.Stmt{&ast.BranchStmt{Tok: token.BREAK}}}}
			body := &ast.BlockStmt{List: append([]ast.Stmt{recv, brk}, s.Body.List...)}
			return &ast.ForStmt{Body: body}
		}
		return s
	case *ast.BlockStmt:
		r.rewriteBlock(s, chans)
		return s
	case *ast.IfStmt:
		r.rewriteBlock(s.Body, chans)
		if s.Else != nil {
			s.Else = r.rewriteStmt(s.Else, chans)
		}
		return s
	case *ast.ForStmt:
		r.rewriteBlock(s.Body, chans)
		return s
	case *ast.SwitchStmt:
		r.rewriteBlock(s.Body, chans)
		return s
	case *ast.TypeSwitchStmt:
		r.rewriteBlock(s.Body, chans)
		return s
	case *ast.SelectStmt:
		// select statements in the code under test only poll ctx.Done(); left untouched
		for _, c := range s.Body.List {
			if cc, ok := c.(*ast.CommClause); ok {
				for i, b := range cc.Body {
					cc.Body[i] = r.rewriteStmt(b, chans)
				}
			}
		}
		return s
	case *ast.CaseClause:
		for i, b := range s.Body {
			s.Body[i] = r.rewriteStmt(b, chans)
		}
		return s
	case *ast.LabeledStmt:
		s.Stmt = r.rewriteStmt(s.Stmt, chans)
		return s
	case *ast.DeferStmt:
		if fl, ok := s.Call.Fun.(*ast.FuncLit); ok {
			r.rewriteBlock(fl.Body, chans)
		}
		return s
	}
	return st
}

// ---- scheduling points at Population method entries --------------------------

func (r *rewriter) addPopulationPoints() {
	for _, d := range r.file.Decls {
		fd, ok := d.(*ast.FuncDecl)
		if !ok || fd.Body == nil || fd.Recv == nil || len(fd.Recv.List) != 1 {
			continue
		}
		st, ok := fd.Recv.List[0].Type.(*ast.StarExpr)
		if !ok {
			continue
		}
		id, ok := st.X.(*ast.Ident)
		if !ok || id.Name != "Population" {
			continue
		}
		pt := &ast.ExprStmt{X: &ast.CallExpr{Fun: sel("vsched", "Point"),
			Args: []ast.Expr{&ast.BasicLit{Kind: token.STRING, Value: strconv.Quote("Population." + fd.Name.Name)}}}}
		fd.Body.List = append([]ast.Stmt{pt}, fd.Body.List...)
		r.needSched, r.changed = true, true
	}
}

// ---- access events on the anchored shared fields -----------------------------

type access struct {
	base  ast.Expr
	field string
	write bool
}

// anchorFields: report the anchored struct fields (package genetics only); package-level
// variables are reported in every instrumented package.
var anchorFields bool

// rootIdent returns the identifier an assignable expression is rooted at (x, x.f.g, x[i].f, *x).
func rootIdent(e ast.Expr) *ast.Ident {
	for {
		switch x := e.(type) {
		case *ast.Ident:
			return x
		case *ast.SelectorExpr:
			e = x.X
		case *ast.IndexExpr:
			e = x.X
		case *ast.StarExpr:
			e = x.X
		case *ast.ParenExpr:
			e = x.X
		default:
			return nil
		}
	}
}

func isPkgVar(id *ast.Ident) bool {
	if id == nil || !curPkgVars[id.Name] {
		return false
	}
	if id.Obj == nil {
		return true // declared in another file of the package
	}
	// declared in this file: a package-level var has a ValueSpec declaration that is not inside a function;
	// the parser resolves locals to their own objects, whose Pos lies inside a function body
	return id.Obj.Kind == ast.Var && topLevelSpecs[id.Obj.Decl]
}

var topLevelSpecs = map[interface{}]bool{}

func (r *rewriter) addAccessEvents() {
	for _, d := range r.file.Decls {
		fd, ok := d.(*ast.FuncDecl)
		if !ok || fd.Body == nil {
			continue
		}
		r.accessBlock(fd.Body)
	}
}

func (r *rewriter) accessBlock(b *ast.BlockStmt) {
	if b == nil {
		return
	}
	b.List = r.accessList(b.List)
}

func (r *rewriter) accessList(list []ast.Stmt) []ast.Stmt {
	var outList []ast.Stmt
	for _, st := range list {
		// recurse into nested blocks first
		switch s := st.(type) {
		case *ast.BlockStmt:
			r.accessBlock(s)
		case *ast.IfStmt:
			r.accessIf(s)
		case *ast.ForStmt:
			r.accessBlock(s.Body)
		case *ast.RangeStmt:
			r.accessBlock(s.Body)
		case *ast.SwitchStmt:
			r.accessClauses(s.Body)
		case *ast.TypeSwitchStmt:
			r.accessClauses(s.Body)
		case *ast.SelectStmt:
			r.accessClauses(s.Body)
		case *ast.LabeledStmt:
			if inner, ok := s.Stmt.(*ast.BlockStmt); ok {
				r.accessBlock(inner)
			}
		}
		// function literals anywhere in this statement
		ast.Inspect(st, func(n ast.Node) bool {
			if fl, ok := n.(*ast.FuncLit); ok {
				r.accessBlock(fl.Body)
				return false
			}
			return true
		})
		accs := shallowAccesses(st)
		if r.pkg == "neat" {
			accs = append(accs, paramsAccesses(st)...)
		}
		for _, a := range accs {
			kind := "R"
			if a.write {
				kind = "W"
			}
			ev := &ast.ExprStmt{X: &ast.CallExpr{Fun: sel("vsched", "Access"), Args: []ast.Expr{a.base,
				&ast.BasicLit{Kind: token.STRING, Value: strconv.Quote(a.field)},
				&ast.BasicLit{Kind: token.STRING, Value: strconv.Quote(kind)}}}}
			outList = append(outList, ev)
			r.needSched, r.changed = true, true
		}
		outList = append(outList, st)
	}
	return outList
}

func (r *rewriter) accessIf(s *ast.IfStmt) {
	r.accessBlock(s.Body)
	switch e := s.Else.(type) {
	case *ast.BlockStmt:
		r.accessBlock(e)
	case *ast.IfStmt:
		r.accessIf(e)
	}
}

func (r *rewriter) accessClauses(b *ast.BlockStmt) {
	for _, c := range b.List {
		switch cc := c.(type) {
		case *ast.CaseClause:
			cc.Body = r.accessList(cc.Body)
		case *ast.CommClause:
			cc.Body = r.accessList(cc.Body)
		}
	}
}

// paramsAccesses (package neat only): element reads and writes of a trait's parameter array,
// reported with the SLICE as object, so that the monitor keys them by the backing array - two traits
// that share one array (a shallow copy) are the same object to it.
func paramsAccesses(st ast.Stmt) []access {
	var res []access
	seen := map[string]bool{}
	addP := func(se *ast.SelectorExpr, write bool) {
		var buf bytes.Buffer
		_ = printer.Fprint(&buf, token.NewFileSet(), se)
		k := buf.String()
		if write {
			k += "W"
		}
		if seen[k] {
			return
		}
		seen[k] = true
		res = append(res, access{base: se, field: "trait parameter array", write: write})
	}
	asParams := func(e ast.Expr) *ast.SelectorExpr {
		if se, ok := e.(*ast.SelectorExpr); ok && se.Sel.Name == "Params" {
			return se
		}
		return nil
	}
	elem := func(e ast.Expr) *ast.SelectorExpr {
		if ix, ok := e.(*ast.IndexExpr); ok {
			return asParams(ix.X)
		}
		return nil
	}
	var scan func(n ast.Node)
	scan = func(n ast.Node) {
		if n == nil {
			return
		}
		ast.Inspect(n, func(n ast.Node) bool {
			switch x := n.(type) {
			case *ast.FuncLit, *ast.BlockStmt:
				return false
			case *ast.IndexExpr:
				if se := elem(x); se != nil {
					addP(se, false)
				}
			case *ast.CallExpr:
				if id, ok := x.Fun.(*ast.Ident); ok && id.Name == "copy" && len(x.Args) == 2 {
					if se := asParams(x.Args[0]); se != nil {
						addP(se, true)
					}
					if se := asParams(x.Args[1]); se != nil {
						addP(se, false)
					}
				}
			}
			return true
		})
	}
	switch s := st.(type) {
	case *ast.AssignStmt:
		for _, l := range s.Lhs {
			if se := elem(l); se != nil {
				addP(se, true)
			} else {
				scan(l)
			}
		}
		for _, rh := range s.Rhs {
			scan(rh)
		}
	case *ast.IncDecStmt:
		if se := elem(s.X); se != nil {
			addP(se, true)
		}
	case *ast.ExprStmt:
		scan(s.X)
	case *ast.ReturnStmt:
		for _, e := range s.Results {
			scan(e)
		}
	case *ast.IfStmt:
		if s.Init != nil {
			res = append(res, paramsAccesses(s.Init)...)
		}
		scan(s.Cond)
	case *ast.RangeStmt:
		if se := asParams(s.X); se != nil {
			addP(se, false)
		}
	}
	return res
}

// shallowAccesses lists the anchored-field accesses made by the parts of st that
// are evaluated when st itself starts executing (nested blocks and function
// literals are handled by their own statement lists).
func shallowAccesses(st ast.Stmt) []access {
	var res []access
	seen := map[string]bool{}
	add := func(se *ast.SelectorExpr, write bool) {
		var buf bytes.Buffer
		_ = printer.Fprint(&buf, token.NewFileSet(), se.X)
		key := buf.String() + "." + se.Sel.Name
		if write {
			key += "W"
		}
		if seen[key] {
			return
		}
		seen[key] = true
		res = append(res, access{base: se.X, field: se.Sel.Name, write: write})
	}
	isAnch := func(e ast.Expr) (*ast.SelectorExpr, bool) {
		se, ok := e.(*ast.SelectorExpr)
		if ok && anchorFields && anchoredFields[se.Sel.Name] {
			return se, true
		}
		return nil, false
	}
	addVar := func(id *ast.Ident, write bool) {
		key := "pkgvar " + id.Name
		if write {
			key += "W"
		}
		if seen[key] {
			return
		}
		seen[key] = true
		res = append(res, access{base: &ast.UnaryExpr{Op: token.AND, X: &ast.Ident{Name: id.Name}}, field: "package variable " + id.Name, write: write})
	}
	var scanExpr func(e ast.Node)
	scanExpr = func(e ast.Node) {
		if e == nil {
			return
		}
		ast.Inspect(e, func(n ast.Node) bool {
			switch x := n.(type) {
			case *ast.FuncLit, *ast.BlockStmt:
				return false
			case *ast.UnaryExpr:
				if x.Op == token.AND { // &p.field handed to an atomic: the atomic is the event
					if _, ok := isAnch(x.X); ok {
						return false
					}
				}
			case *ast.KeyValueExpr:
				// composite literal keys are field names, not accesses
				scanExpr(x.Value)
				return false
			case *ast.SelectorExpr:
				if se, ok := isAnch(x); ok {
					add(se, false)
				}
				// the selected name is a field or method, not a variable: look at the operand only
				scanExpr(x.X)
				return false
			case *ast.Ident:
				if isPkgVar(x) {
					addVar(x, false)
				}
			}
			return true
		})
	}
	switch s := st.(type) {
	case *ast.AssignStmt:
		for _, l := range s.Lhs {
			if id := rootIdent(l); s.Tok != token.DEFINE && isPkgVar(id) {
				addVar(id, true)
			}
			if se, ok := isAnch(l); ok {
				add(se, true)
				scanExpr(se.X)
			} else if _, plain := l.(*ast.Ident); !plain {
				scanExpr(l)
			}
		}
		for _, rh := range s.Rhs {
			scanExpr(rh)
		}
	case *ast.IncDecStmt:
		if id := rootIdent(s.X); isPkgVar(id) {
			addVar(id, true)
		}
		if se, ok := isAnch(s.X); ok {
			add(se, true)
		} else {
			scanExpr(s.X)
		}
	case *ast.ExprStmt:
		scanExpr(s.X)
	case *ast.ReturnStmt:
		for _, e := range s.Results {
			scanExpr(e)
		}
	case *ast.IfStmt:
		if s.Init != nil {
			res = append(res, shallowAccesses(s.Init)...)
		}
		scanExpr(s.Cond)
	case *ast.ForStmt:
		if s.Init != nil {
			res = append(res, shallowAccesses(s.Init)...)
		}
		scanExpr(s.Cond)
	case *ast.RangeStmt:
		scanExpr(s.X)
	case *ast.SwitchStmt:
		if s.Init != nil {
			res = append(res, shallowAccesses(s.Init)...)
		}
		scanExpr(s.Tag)
	case *ast.DeclStmt:
		scanExpr(s.Decl)
	case *ast.DeferStmt:
		for _, a := range s.Call.Args {
			scanExpr(a)
		}
	case *ast.GoStmt:
		for _, a := range s.Call.Args {
			scanExpr(a)
		}
	}
	return res
}
