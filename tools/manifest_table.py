# Table read by tools/gen_manifest.py

NOTES = ("All checks execute the real goNEAT code built from /repo's current working tree through a regenerated "
         "instrumenting overlay (no source hooks in /repo). Exit 0/1 are verdicts, exit 2 is a tooling error. "
         "Genuine defects repaired by fix: commits are listed in known_findings.jsonl.")

NOT_APPLICABLE = {}

ENGINES = [
 {"name": "E4 bounded-exhaustive input enumeration", "path": "cmd/mc (c07 c11 c12 c13 c14 c15 c18 c19)",
  "serves_properties": ["C07", "C11", "C12", "C13", "C14", "C15", "C18", "C19"],
  "kind_free_text": "enumerates every input below a stated size bound and compares the implementation with a small reference model written in Go"},
]

chk("C07", "exploration", "E4",
    "bounded-exhaustive enumeration of all gene-list pairs over a k-innovation alphabet against a set-arithmetic reference",
    "Every ordered pair of gene lists over innovations {1..k} (k=6 quick, 8 thorough; empty list included) under 3 mutation-number patterns, 6 coefficient rows and both methods is evaluated on the real compatibility code and compared with E/D/W computed by set arithmetic; symmetry, zero self-distance, no NaN, non-negativity and linear==fast are asserted on each. The space named in the evidence rule is enumerated completely.",
    "Innovation alphabet bounded by k; mutation numbers and coefficients come from small menus; trusts go build -overlay and the 40-line reference.",
    "DESIGN.md section 3 C07")
