# Table read by tools/gen_manifest.py

NOTES = ("All checks execute the real goNEAT code built from /repo's current working tree through a regenerated "
         "instrumenting overlay (no source hooks in /repo). Exit 0/1 are verdicts, exit 2 is a tooling error. "
         "Genuine defects repaired by fix: commits are listed in known_findings.jsonl.")

NOT_APPLICABLE = {}

ENGINES = [
 {"name": "E4 bounded-exhaustive input enumeration", "path": "cmd/mc (c07 c11 c12 c13 c14 c15 c18 c19)",
  "serves_properties": ["C07", "C11", "C12", "C13", "C14", "C15", "C18", "C19"],
  "kind_free_text": "enumerates every input below a stated size bound and compares the implementation with a small reference model written in Go"},
]

chk("C07", "exploration", "E4",
    "bounded-exhaustive enumeration of all gene-list pairs over a k-innovation alphabet against a set-arithmetic reference",
    "Every ordered pair of gene lists over innovations {1..k} (k=6 quick, 8 thorough; empty list included) under 3 mutation-number patterns, 6 coefficient rows and both methods is evaluated on the real compatibility code and compared with E/D/W computed by set arithmetic; symmetry, zero self-distance, no NaN, non-negativity and linear==fast are asserted on each. The space named in the evidence rule is enumerated completely.",
    "Innovation alphabet bounded by k in the pair enumeration; a second stage takes every length 0..48 (thorough 160) of a common run of genes followed by every pair of tails over 3 further innovations, each genome with plain attributes and with every second gene disabled / other weights / recurrence flags (attributes the formula does not mention); mutation numbers and coefficients come from small menus; trusts go build -overlay and the 40-line reference.",
    "DESIGN.md section 3 C07")

chk("C12", "exploration", "E4",
    "bounded-exhaustive enumeration of all feed-forward DAGs on a small node set, every solver entry point vs a topological-order reference",
    "Every feed-forward edge set over {bias, input(s), <=2..3 hidden, output(s)} in which every neuron is reachable from a sensor is built as a real Network; under weight rotations, every registered activation type (uniform and mixed) and every input vector over a 4-value alphabet, Network.ForwardSteps(D), ForwardSteps(D+2), RecursiveSteps and the fast solver's ForwardSteps(D), ForwardSteps(D+2), RecursiveSteps and Relax (the fast solver derived from the network, restored from its written model, and constructed directly with bias links as connections, flushed before use; and one derived solver used through another entry point on another input and flushed) are compared (1e-11 relative) with a Kahn-order evaluation that uses the library's registered activation functions. The space named in the evidence rule is enumerated completely.",
    "Node sets bounded (quick 5 nodes, thorough up to 7) in the exhaustive part; a deep-chain stage takes every chain length up to 80 (thorough 400) with a skip link and bias links through five entry points; RecursiveSteps of the standard solver is also evaluated after depth queries (caps 1, 2, none, 1) on the same network; besides one handle per network, a second fast solver derived from the same network is loaded and run between load and evaluation of the first; weights/inputs from non-saturating menus; the activation functions themselves are trusted here (C18 checks them).",
    "DESIGN.md section 3 C12")

chk("C14", "exploration", "E4",
    "bounded-exhaustive enumeration of all digraphs on k neurons + 1 sensor, all caps and all pairs of consecutive depth queries, vs DP longest path",
    "ALL digraphs (every neuron->neuron edge including self-loops, every sensor->neuron edge) over 2 hidden + 1 output (quick) and 3 hidden + 1 output / 2 hidden + 2 outputs (thorough) are built as real networks; for each, every cap 0..n+1 and every ordered pair of consecutive queries is executed: DAG depth == DP longest path ending in an output, cyclic graphs terminate within [0, #nodes], cap rule, second query == same query on a fresh network, no visited mark left; MaxActivationDepth(), a negative cap and the same graph built with an empty control-node list agree. Hangs and crashes of a worker are turned into verdicts.",
    "Sensors are interchangeable for depth so one sensor is used; modular networks excluded as in the statement; beyond the small node sets a deep-chain stage takes every chain length up to 120 (thorough 600) with a direct link and dead-end side neurons (no skip links: the library enumerates paths), caps around the depth and second queries; hang guard is generous wall-clock, only used to convert non-termination into a verdict.",
    "DESIGN.md section 3 C14")

chk("C18", "exploration", "E4",
    "exhaustive sweep of float32-representable inputs (all 2^32 in thorough), all 256 type codes and all near-miss names vs closed forms",
    "Every registered scalar activation is evaluated on every float32 bit pattern with 16 low bits clear (quick) / every finite float32 bit pattern (thorough) widened to float64, plus breakpoint neighbourhoods, -0.0 and powers of ten up to 1e300, and compared with closed forms written from the documentation (4 ulps), finiteness, documented range and monotonicity between numeric neighbours; module activations on all vectors of length 1..3 over an 8-value alphabet through ActivateModuleByType, network.ActivateModule and a fast solver holding a list of three modules; registration and same-name re-registration on a fresh factory; all 256 type codes and every registered name with every 1-character deletion/substitution for the lookup bijection and error clauses.",
    "float64 inputs that are not float32-representable are covered only by the structured extras; closed forms are my reading of the doc comments.",
    "DESIGN.md section 3 C18")

chk("C19", "exploration", "E4",
    "bounded-exhaustive enumeration of all series up to length L over a 7-value alphabet and all small experiment shapes vs textbook definitions",
    "All sequences of length 0..5 (quick) / 0..7 (thorough) over {-2.5,0,1,1,3,1e10,1e-10} - every order and tie pattern of every multiset - are passed to each Floats accessor and compared with textbook definitions computed on a sorted copy (empirical quantile at ceil(p*n)); a panic is a violation; NaN/0 on the empty series. All experiments with 0..2(3) trials of 0..3 generations over a 6-record menu: every aggregate accessor (experiment and trial level incl. Trial.Average) is recomputed directly from the recorded generations; usage sequences: in-place sort, caller writes to returned series, another experiment read into the queried object.",
    "Alphabet (11 symbols incl. three distinct negative values) and length bounded in the full enumeration; a long-series stage takes every length up to 96 (thorough 400) in every rotation of the ascending and of the descending order of one series; solved generations may record 0 winner nodes / genes; gonum is trusted for nothing (reference is independent).",
    "DESIGN.md section 3 C19")

ENGINES.append({"name": "E1 choice-tree explorer (deviation-bounded, stateless)", "path": "cmd/mc/explore.go, pop.go, popcheck.go",
  "serves_properties": ["C01", "C02", "C03", "C09", "C10", "C17", "C20"],
  "kind_free_text": "every random draw of the real code is a choice point with a small menu (vrand shim through the build overlay); all executions within d deviations of several base policies are run to completion and checked"})

_E1NOTE = ("Every options object is a changed by-value copy of a used decoy options value; a run keeps one executor value for all its epochs (C02 / C17: one per process). every third scenario runs at the library's log level debug (sinks silenced); C09's shape stage includes a tiny-scale landscape (values around 1e-10). Bounds: populations <= 12 (hand-built up to 30; C02 additionally base executions of a twenty-species population of 40 under the parallel executor; C09's shape stage all shapes of 5 and 8 organisms), 6-8 epochs, <= 1 deviation per run in quick and <= 2 on a scenario subset in thorough; random magnitudes from a 3-point menu; "
           "no model: every explored trace is an implementation trace. Trusts go build -overlay, the import rewrite math/rand -> vrand and the accessor file.")

chk("C02", "model_checking", "E1",
    "stateless deviation-bounded exploration of all random-draw sequences of multi-epoch runs on the real code, invariant checked after every epoch",
    "For every scenario (start genome incl. random populations x configuration row x fitness landscape x executor driving x base policy) ALL executions within 1 deviation (2 on a subset, thorough) of the base policy are run on the real NewPopulation/NextEpoch code; after construction and after every one of 6-8 epochs the C02 predicate is evaluated literally (no error, exact size, no survivor of the old generation, partition with agreeing back pointers, no empty species, unique never-reused species ids, unique genome ids, ageing rule with the first-turnover exception). Vacuity counters show stealing, delta coding, extinction and founding are reached.",
    _E1NOTE, "DESIGN.md section 3 C02")

chk("C03", "model_checking", "E1",
    "stateless deviation-bounded exploration of multi-epoch runs with an innovation ledger over the whole history",
    "Same execution space as C02 with a ledger attached for the whole run: innovation -> (in,out,recurrent) and node id -> role never change; every number first seen in a generation exceeds all held before; identical new links of one sequential generation carry one number and the generation's record never holds one innovation twice; record empty after each epoch; counters initialised past the initial population (module genes included) for NewPopulation, NewPopulationRandom and ReadPopulation. Plus a generation stage at operator level: every sequence of 2-3 (thorough 4) (parent, structural mutator) steps of one sequential generation over a pool of four parents (one link under two numbers, forward/recurrent pair, late sensor) with a real Population as the record, all choice sequences within 1 deviation: same new link -> same number, same split of the same gene -> same node id and numbers, numbers fresh, no record twice.",
    _E1NOTE, "DESIGN.md section 3 C03")

chk("C09", "model_checking", "E1",
    "stateless deviation-bounded exploration of multi-epoch runs; quota arithmetic re-derived from the old generation's objects after each epoch",
    "Same execution space as C02 (positive landscapes weighted up; whole, phase-wise and species-wise driving of the sequential executor). After each epoch: expected offspring = adjusted fitness / population mean; fitness shared uniformly within a species; parents = top floor(survival*n)+1; prefix sums of quotas = floor of prefix sums of expected offspring with at most one make-up (when neither stealing nor delta coding applies); quotas total PopSize in all cases; each species yields exactly its quota.",
    _E1NOTE, "DESIGN.md section 3 C09")

chk("C10", "model_checking", "E1",
    "stateless deviation-bounded exploration of multi-epoch runs; champion snapshot before vs population after each epoch",
    "Same execution space as C02 with start genomes that carry disabled and recurrent genes and nil traits and structural profiles that create such champions within the run; for every species whose final quota exceeds five the next generation must contain a genome genetically equal (bit for bit, id ignored) to the pre-epoch snapshot of its fittest organism.",
    _E1NOTE, "DESIGN.md section 3 C10")

ENGINES.append({"name": "E2 explicit-state search over genomes (GenomeSpace)", "path": "cmd/mc/genomespace.go, c01.go, c05.go, c06.go",
  "serves_properties": ["C01", "C05", "C06"],
  "kind_free_text": "breadth-first closure of start genomes under all genetic operators of the real code x all their choice sequences within a deviation bound, one shared innovation record per search, states deduplicated by a canonical structural key with a stated correctness argument, per-transition oracles"})

_E2NOTE = ("Besides the breadth-first search (which rebuilds a state before every operator): every sequence of 2-3 (thorough 4) unary operators applied to ONE live genome object under every choice sequence within 1 deviation, and add-link / connect-sensors under an old record that knows every missing link under numbers falling into every gap of the gene list. Bounds: 9 families of start genomes, breadth-first depth 3 (quick; 2 for the largest families, 1 for the 16-gene genome) / depth 4 under a per-family time cap reported in the evidence (thorough); operator choice sequences within 2 deviations of Z/M/A (1 for the many-draw weight/trait mutators and for crossovers); genomes reached have <= ~10 nodes / ~15 genes. "
           "No model: every transition is a call of the real operator through the accessor overlay.")

chk("C01", "model_checking", "E2+E1",
    "explicit-state breadth-first search over genomes under all real operators, plus deviation-bounded exploration of multi-epoch runs, well-formedness evaluated on every transition",
    "Every transition of the GenomeSpace search (13 operators incl. the three crossovers with partners from the discovered set, two innovation-record regimes for structural mutators) is checked against the literal C01 predicate plus retention of the ancestors' I/B/O nodes; crossovers are additionally run on all pairs of parents WITHOUT common ancestry (subsets of a master gene list, complete choice trees); and every organism after NewPopulation / NewPopulationRandom / ReadPopulation and after each of 6-8 epochs of the E1 runs (both executors) is checked. One genuine defect is listed as a known finding (gene-less single-point child for unaligned parents).",
    _E2NOTE, "DESIGN.md section 3 C01")

chk("C04", "model_checking", "E4xE1",
    "bounded-exhaustive enumeration of parent pairs crossed with exhaustive / deviation-bounded enumeration of the crossover's random choices, statement checked clause by clause",
    "Parents are all non-empty well-formed subsets of a master list of k innovations (k=5 quick, 6 thorough) containing two innovations for one link and a recurrent self-loop, in three layouts (outputs before hidden nodes; hidden nodes before two outputs; node ids from 0 with both parents carrying the same genome id); all ordered pairs x enabled patterns x trait patterns x fitness orders x three methods x every choice sequence of the real mate call (complete trees for single-point and for few matching genes, else all sequences within 2-3 deviations of three policies). Each child is checked against every clause of C04 (origin and uniqueness of genes, weights, fitter-parent rule, matching genes inherited, enabled flags, node set, averaged traits, parents unmodified).",
    "Parents share consistent numbering except for the deliberate same-link pair; unequal fitness values are 0.5 / 1 and, in the second node layout, 0.3 against the next float64 above it; hidden-node alphabet of 2; weights from the hard-float alphabet. Trusts overlay + accessors.",
    "DESIGN.md section 3 C04")

chk("C05", "model_checking", "E2",
    "explicit-state breadth-first search over genomes; before/after relation of every mutator evaluated on every transition",
    "On every mutator transition of the GenomeSpace search the documented effect is checked on pointer-free snapshots: add-node (exactly one enabled gene disabled, one hidden node, a->n weight 1 with the old recurrence flag, n->b old weight non-recurrent, nothing else), add-link (exactly one new gene between existing nodes, no duplicate link, no sensor target), connect-sensors (one previously unconnected sensor, one gene per non-sensor node), and weight/trait/toggle/re-enable mutators (structure unchanged, toggle keeps a node's last enabled outgoing gene, re-enable touches only the first disabled gene). Structural mutators run under a matching and an empty innovation record.",
    _E2NOTE, "DESIGN.md section 3 C05")

chk("C06", "model_checking", "E2+E1",
    "explicit-state search supplies the genomes; duplicate + pointer walk + mutate-one-side-compare-the-other under deviation-bounded enumeration of the mutators' choices; E1 over spawning",
    "Every GenomeSpace state plus corner genomes (mostly disabled, no trait references, non-default activations, modular with enabled/disabled module, unsorted) is duplicated, as built and after the original was used (expressed, node parameters set): the copy must be bit-equal (id excepted), nothing reachable from the copy may be reachable from the original (generic reflection walk over both complete object graphs incl. unexported fields), expressing the copy leaves the original's network untouched, and mutating either side with each of 9 mutators (every choice sequence within the bound) must leave the other side's snapshot unchanged. NewPopulation from 5 start genomes, sizes 1-4, all draw sequences within the bound: spawned genomes differ from the start genome only in weights, mutation number mirrors weight.",
    _E2NOTE, "DESIGN.md section 3 C06")

chk("C08", "model_checking", "E4+E1",
    "bounded-exhaustive enumeration of existing populations x ordered batches with a lock-step list-of-lists reference; the same reference on every baby batch of deviation-bounded multi-epoch runs",
    "(a) A family of structurally different genomes (8 quick; 12 thorough: all 8 hidden-node subsets, half of them in two weight settings) differing by excess and by disjoint genes: every way to pre-speciate an ordered choice of up to 2 members x every ordered batch of up to 3 further members (plus a repeated member) x 5 thresholds x both methods x 3 coefficient rows x 2 id layouts; the real speciate is followed organism by organism by a reference that recomputes the library's distance to each representative (any minimiser accepted on ties; new species iff none below threshold, with an id above every id issued before) and the final species lists are compared; the distance speciation works with is compared with the set-arithmetic formula for every pair. (b) the same reference on the babies of every epoch of the E1 runs (species-wise driving) and on NewPopulation / NewPopulationRandom / ReadPopulation.",
    "Family and batch sizes bounded; the epoch part adds a stagnating hand-built population whose species hold members resembling another species (babies nearest to a species that delta coding left without offspring). Trusts overlay + accessors.",
    "DESIGN.md section 3 C08")

chk("C11", "exploration", "E4",
    "bounded-exhaustive enumeration of genomes (every absent/enabled/disabled assignment to every candidate link over four node layouts, recurrence and module variants), every pair of ids queried, vs a set-based reference",
    "Over four node layouts (sensors first; sensors with larger ids than neurons; two outputs; node list not in ascending id order) every assignment {absent, enabled, disabled} to every candidate link (all sources x all non-sensor targets incl. self-loops) is built as a genome and expressed; plus recurrent/parallel-link variants and modular genomes (enabled, disabled, two modules in all enabled/disabled combinations, three intersecting modules in two orders). For each network: nodes (id, role, activation, order), inputs/outputs in genome order (also behaviourally via LoadSensors), link multisets per node with pointer wiring, control-node wiring, NodeCount/LinkCount/Complexity, and Node/Nodes/From/To/Edge/WeightedEdge/Weight/HasEdgeFromTo/HasEdgeBetween for all ordered pairs of ids including absent ones (must be nil/false/empty); organism phenotype caching and rebuild.",
    "Node sets of 4-5 nodes; weights from the hard-float alphabet; From/To compared as sets; listings are treated as values (two listings drained interleaved, nested listings, successor / predecessor listings taken together).",
    "DESIGN.md section 3 C11")

chk("C13", "model_checking", "E4",
    "exhaustive enumeration of operation histories (all sequences over a solver alphabet up to a length) on all small digraphs, differential oracle flushed-vs-fresh on the real solvers",
    "For every digraph over {bias, input, output, hidden} (thorough: also all 2^15 digraphs with two hidden nodes) in two variants, for the standard network and the fast solver built from the same genome, every history h of length <= 2 (3 thorough) over {Load x2, Forward(1), Forward(2), Recursive, Relax / Depth queries} followed by Flush and every continuation s of length <= 3 is executed; outputs, results and errors after every step of s must equal, bit for bit, those of s on a freshly built instance. Histories may also use Activate(), a wrong-length load and the read-only accessors. Plus 640 chain-shaped networks (length 1-4, one extra recurrent / time-delayed link) x 5 driving modes x warm-up lengths 1..7 before the flush, compared over a 7-step sequence.",
    "Node sets of 4-5 nodes; two input values; observations through the public solver interface only. The deep-chain stage adds 1280 chain networks (plain, with a multiply / max module reading a deep node, and linear chains whose history before the flush loads +Inf / -Inf / NaN) x 5 modes x warm-up lengths 1..7.",
    "DESIGN.md section 3 C13")

chk("C15", "exploration", "E4",
    "bounded-exhaustive enumeration of written objects (genomes with every hard float in every position, all activation types, GenomeSpace states, all small populations, all small feed-forward models, small experiments) through every encoding, bit-exact comparison",
    "Genomes (start, corner, unusual layouts, every gene weight / mutation number / trait parameter replaced in turn by every value of a 21-value hard-float alphabet, every scalar activation type, trait-reference patterns, GenomeSpace states of three families, modular genomes) through plain Write->Read / ReadGenome and YAML; organisms through MarshalBinary/UnmarshalBinary (and again after the genotype changed); every multiset of <= 3 genomes of a 6-member family through Population.Write->ReadPopulation; all 2^9 small feed-forward models plus a modular one and solvers with their connection list in every order through WriteModel->ReadFMNSModel with bit-equal outputs; experiments (all single-trial shapes of <= 2/3 generations and combinations) through Write->Read with records, champions and 8 derived statistics compared.",
    "Alphabets bounded; populations are written with genome ids that are the positions, all equal, and descending with gaps; sign of a zero weight not compared; experiment records always carry a champion.",
    "DESIGN.md section 3 C15")

chk("C20", "model_checking", "E1",
    "complete enumeration of the tree of evaluator answers (environment choices) on the real Execute, compared with a reference protocol state machine",
    "For NumRuns x NumGenerations in {0..3}^2 (0..4 thorough), observer present/absent, both executors, a context cancelled or past its deadline before the start or not, a fresh / pre-allocated / still filled Trials slice, options carried directly or in a nested context, EVERY script of evaluator answers {unsolved, solved, error, cancel+unsolved, cancel+solved, solved+error} is executed on the real Experiment.Execute (4-organism XOR population) - the tree is enumerated completely, no deviation bound. A reference state machine written from the statement gives the exact notification / evaluation sequence for undisturbed runs and the abort rule (same prefix, no further evaluation, the evaluator's error or context.Canceled) for aborted ones, the recorded trials, and the population handling (fresh per trial, start topology, turnover between unsolved generations, none after solved).",
    "Runs/generations bounded by 3 (4); the evaluator's failure is a plain error, an error wrapping context.Canceled or one wrapping context.DeadlineExceeded (by configuration family); the random draws of evolution are not enumerated here (they do not influence the protocol).",
    "DESIGN.md section 3 C20")

ENGINES.append({"name": "E3 controlled scheduler + vector-clock monitor + free-running race pass", "path": "shims/vsched, shims/vsync, shims/vatomic, tools/instrument, cmd/mc/c16.go",
  "serves_properties": ["C16"],
  "kind_free_text": "the instrumenting overlay turns go statements, channel operations, sync and sync/atomic calls of the real code into cooperative scheduling points; all interleavings within a preemption bound are enumerated; a happens-before monitor watches the anchored shared fields; the same bodies also run free under Go's race detector"})

chk("C16", "model_checking", "E3",
    "stateless preemption-bounded exploration of all interleavings of the real parallel executor under a controlled scheduler, with a vector-clock happens-before monitor; plus a free-running race-detector pass",
    "For scenarios in which 2-3 species innovate on shared structure in the same epoch (all add-node, all add-link, mixed with mating and interspecies dad, optionally after a warm-up epoch) ALL interleavings of the real ParallelPopulationEpochExecutor.NextEpoch at its synchronisation operations and Population method entries are enumerated with at most 2 (quick) / 3 (thorough) preemptions; on every schedule: no deadlock, panic or livelock, no happens-before race on Population.innovations / nextInnovNum / nextNodeId, on package-level variables or on option fields the genetics package writes, no epoch error, exact size and partition, well-formed genomes, innovation ledger. Thread-local random answers keep each thread's data schedule-independent. sync.Pool is a deterministic LIFO stand-in with scheduling points. The same bodies run free under Go's race detector (6 / 60 runs, GOMAXPROCS 2 and 16).",
    "Preemption bound; <= 3 reproduction threads under the controlled scheduler (nine scenarios in quick, among them both species connecting the same disconnected sensor), twenty species only in the free-running pass, which also evaluates the population guarantees after every epoch and reports a crash inside the library as a violation; sequentially consistent interleavings only; race-freedom outside the anchored fields rests on the (not schedule-exhaustive) race-detector pass. Trusts the instrumenter's rewriting of go/chan/sync constructs and the shims.",
    "DESIGN.md section 3 C16")

chk("C17", "model_checking", "E1",
    "stateless deviation-bounded exploration in which every execution is run twice in-process and the base executions again in a second process; plus seeded runs on the real math/rand repeated in-process and in a second process",
    "Explorer mode: for every scenario (start genomes incl. one with five disconnected sensors and random populations x configuration rows x landscapes x policies, four node activators) every execution within 1 deviation of the base policy is run twice in the same process from the same start genome objects (second pass after garbage, forced GC and unrelated evolution, at log level debug with silenced sinks); the draw trace (kind and bound of each draw) and the bit-exact population fingerprints after construction and every epoch must agree; replaying recorded answers must meet the same draws; base executions are compared with a fresh process. Real math/rand: 16 (128 thorough) seed x start x configuration runs of 10 epochs repeated in-process under different GOGC / GOMAXPROCS and in a second process.",
    "All runs of a process start from the same genome objects and are handed the same options value. A spawn stage calls NewPopulation for every size 1..64 and around the powers of two / round numbers up to 4096 (5000) three times in the three environments. Besides the random draws the harness owns three environment choices and gives the executions that must agree different answers: the iteration order of every map the instrumenter can classify syntactically (range statements rewritten to iterate over harness-ordered keys: ascending / descending / rotated), the clock (package time replaced by a shim: 2001 + 1 ms per reading / 2033 + 7 s / 1999 + 1 ns) and the processor count (all / 1 / 3). One five-species population runs with all compatibility coefficients 0 (every placement an exact tie), one start genome is modular with module nodes attached through the control gene only. Memory addresses and maps the instrumenter cannot classify stay with the runtime; dependence on them is caught only by the repetition. Bounds as in C02.",
    "DESIGN.md section 3 C17")
