#!/bin/bash
# regenerate the overlay from /repo's working tree and rebuild build/mc
cd /verif; export GOFLAGS=-mod=mod GOPROXY=off GOSUMDB=off GOTOOLCHAIN=local
go build -o build/instrument ./tools/instrument && ./build/instrument -repo /repo -verif /verif -out /verif/build/overlay >/dev/null && go build -overlay build/overlay/overlay.json -o build/mc ./cmd/mc
