#!/bin/bash
# tools/seedall.sh [tier] [streams]: runs every seeded change against the checks named in its meta.json (detected_by)
# on private copies of the repository (tools/seedrun.sh) and writes seeded/DETECTION.md. With streams > 1 several
# seeded changes are tried at the same time (each check then gets fewer cores; a check that hits its internal
# deadline reports exhaustive:false and may miss - re-run such a line alone).
T=${1:-quick}
P=${2:-1}
cd /verif
out=seeded/DETECTION.md
tmpd=$(mktemp -d)
one() {
  n=$1
  ids=$(python3 -c "import json;print(' '.join(json.load(open('seeded/$n/meta.json'))['detected_by']))")
  tools/seedrun.sh seeded/$n $2 $ids > $3/$n.txt 2>&1
}
export -f one
ls seeded | while read n; do [ -f seeded/$n/meta.json ] && echo $n; done | xargs -P $P -I{} bash -c "one {} $T $tmpd"
cat $tmpd/*.txt > $tmpd/all
{
  echo "# Detection matrix ($T tier, $(date -u +%Y-%m-%dT%H:%MZ), /repo at $(git -C /repo log --format=%h -1), /verif at $(git -C /verif log --format=%h -1))"
  echo
  echo "Each seeded change applied to a private copy of /repo; exit=1 means the check reported a VIOLATION."
  echo
  echo '```'
  cut -c1-220 $tmpd/all
  echo '```'
  echo
  echo "missed (exit=0): $(grep -c 'exit=0' $tmpd/all); tooling errors (exit=2): $(grep -c 'exit=2' $tmpd/all); detected (exit=1): $(grep -c 'exit=1' $tmpd/all)"
} > $out
rm -rf $tmpd
tail -1 $out
