#!/bin/bash
# tools/seedall.sh [tier]: runs every seeded change against the checks named in its meta.json (detected_by)
# on private copies of the repository (tools/seedrun.sh) and writes seeded/DETECTION.md.
T=${1:-quick}
cd /verif
out=seeded/DETECTION.md
tmp=$(mktemp)
for d in seeded/*/; do
  n=$(basename $d)
  [ -f $d/meta.json ] || continue
  ids=$(python3 -c "import json;print(' '.join(json.load(open('$d/meta.json'))['detected_by']))")
  tools/seedrun.sh seeded/$n $T $ids >> $tmp 2>&1
done
{
  echo "# Detection matrix ($T tier, $(date -u +%Y-%m-%dT%H:%MZ), /repo at $(git -C /repo log --format=%h -1), /verif at $(git -C /verif log --format=%h -1))"
  echo
  echo "Each seeded change applied to a private copy of /repo; exit=1 means the check reported a VIOLATION."
  echo
  echo '```'
  cut -c1-220 $tmp
  echo '```'
  echo
  echo "missed (exit=0): $(grep -c 'exit=0' $tmp); tooling errors (exit=2): $(grep -c 'exit=2' $tmp); detected (exit=1): $(grep -c 'exit=1' $tmp)"
} > $out
rm -f $tmp
tail -1 $out
