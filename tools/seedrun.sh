#!/bin/bash
# tools/seedrun.sh <seeded/dir> <tier> <check ids...>
# Tries a seeded change WITHOUT touching /repo: a private copy of the repository's working tree gets
# the patch, the overlay and the harness are built against that copy (go build -modfile), and the
# run writes evidence and replays to a private directory (VERIF_OUT). Safe to run while other checks
# run. Prints one line per check: <seed> <check> exit=<rc> [first VIOLATION line]
D=$1; T=$2; shift 2
export GOFLAGS=-mod=mod GOPROXY=off GOSUMDB=off GOTOOLCHAIN=local
name=$(basename $D)
W=/tmp/seedrun/$name.$$
rm -rf $W; mkdir -p $W/repo $W/out/build/tmp
trap 'rm -rf $W' EXIT
rsync -a --exclude out --exclude .git /repo/ $W/repo/
( cd $W/repo && git init -q . 2>/dev/null; git apply --unsafe-paths /verif/$D/patch.diff 2>/dev/null || patch -p1 -s < /verif/$D/patch.diff ) || { echo "$name APPLY-FAILED"; exit 2; }
cd /verif
[ -x build/instrument ] || go build -o build/instrument ./tools/instrument
./build/instrument -repo $W/repo -verif /verif -out $W/overlay >/dev/null || { echo "$name INSTRUMENT-FAILED"; exit 2; }
sed "s|=> /repo|=> $W/repo|" go.mod > $W/go.mod; cp go.sum $W/go.sum
go build -modfile=$W/go.mod -overlay $W/overlay/overlay.json -o $W/mc ./cmd/mc || { echo "$name BUILD-FAILED"; exit 2; }
for id in "$@"; do
  if [ "$id" = "C16" ]; then
    go build -race -modfile=$W/go.mod -overlay $W/overlay/overlay.json -o $W/mc-race ./cmd/mc || { echo "$name RACE-BUILD-FAILED"; exit 2; }
  fi
  out=$(VERIF_OUT=$W/out VERIF_MC_RACE=$W/mc-race $W/mc $id --tier $T 2>&1); rc=$?
  v=$(echo "$out" | grep -A1 '^VIOLATION' | head -2 | tr '\n' ' ' | cut -c1-400)
  [ $rc -ne 0 ] && [ $rc -ne 1 ] && v="$(echo "$out" | tail -3 | tr '\n' ' ' | cut -c1-300)"
  echo "$name $id exit=$rc $v"
  mkdir -p /verif/seeded/$name/replays; cp $W/out/replays/$id-*.json /verif/seeded/$name/replays/ 2>/dev/null
done
