#!/bin/bash
# tools/seedrun.sh <seeded/dir> <tier> <check ids...>: applies the seeded change to /repo, runs the checks, undoes it.
# Prints one line per check: <seed> <check> exit=<rc> [first VIOLATION line]
D=$1; T=$2; shift 2
cd /verif
if ! git -C /repo diff --quiet; then echo "refusing: /repo has uncommitted changes" >&2; exit 2; fi
git -C /repo apply /verif/$D/patch.diff || { echo "$(basename $D) APPLY-FAILED"; exit 2; }
trap 'git -C /repo checkout -- . ' EXIT
for id in "$@"; do
  out=$(./check $id --tier $T 2>&1); rc=$?
  v=$(echo "$out" | grep -A1 '^VIOLATION' | head -2 | tr '\n' ' ' | cut -c1-400)
  [ $rc -ne 0 ] && [ $rc -ne 1 ] && v="$(echo "$out" | tail -3 | tr '\n' ' ' | cut -c1-300)"
  echo "$(basename $D) $id exit=$rc $v"
done
