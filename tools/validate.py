#!/usr/bin/env python3
"""Validates MANIFEST.json and every evidence file against the schemas (uses the tooling venv's jsonschema)."""
import json, sys, glob, jsonschema
ok = True
m = json.load(open('/verif/MANIFEST.json'))
try:
    jsonschema.validate(m, json.load(open('/root/.vp/MANIFEST.schema.json')))
except Exception as e:
    ok = False; print("MANIFEST invalid:", e)
es = json.load(open('/root/.vp/EVIDENCE.schema.json'))
for c in m['checks']:
    f = c['evidence_file']
    try:
        ev = json.load(open(f))
        jsonschema.validate(ev, es)
        if ev['level'] != c['level_claimed']['category']:
            ok = False; print(f, "level mismatch", ev['level'], c['level_claimed']['category'])
    except Exception as e:
        ok = False; print(f, "invalid:", str(e)[:300])
print("validation", "OK" if ok else "FAILED")
sys.exit(0 if ok else 1)
