#!/usr/bin/env python3
"""Generates /verif/MANIFEST.json from the table below (single source of truth)."""
import json, os

ROOT = os.path.dirname(os.path.dirname(os.path.abspath(__file__)))

BASELINE_OFF = ("cd /repo && GOFLAGS=-mod=mod GOPROXY=off GOSUMDB=off GOTOOLCHAIN=local "
                "go test -mod=mod -json -vet=off -count=1 -timeout 25m ./...")

# id -> dict(level, engine, technique, text, note, design)
CHECKS = {}

def chk(id, level, engine, technique, text, note, design):
    CHECKS[id] = dict(level=level, engine=engine, technique=technique, text=text, note=note, design=design)

exec(open(os.path.join(ROOT, "tools", "manifest_table.py")).read())

ALL = ["C%02d" % i for i in range(1, 21)]
props = {}
for line in open(os.path.join(ROOT, "properties.jsonl")):
    line = line.strip()
    if line:
        p = json.loads(line)
        props[p["id"]] = p

checks = []
for id in ALL:
    if id not in CHECKS:
        continue
    c = CHECKS[id]
    checks.append({
        "property_id": id,
        "quick_cmd": "./check %s --tier quick" % id,
        "thorough_cmd": "./check %s --tier thorough" % id,
        "evidence_file": "/verif/evidence/%s.json" % id,
        "replay_cmd_template": "./check %s --replay {path}" % id,
        "engine": c["engine"],
        "level_claimed": {"category": c["level"], "text": c["text"], "design_ref": c["design"]},
        "level_note": c["note"],
        "technique": c["technique"],
    })

na = [{"property_id": id, "reason": NOT_APPLICABLE.get(id, "check not built yet in this session; see DESIGN.md section 3 for the planned enumeration")}
      for id in ALL if id not in CHECKS]

manifest = {
    "version": 1,
    "setup_cmd": "./setup.sh",
    "hooks": {
        "guard": "verif",
        "enable": "no source hooks: ./check regenerates an instrumenting build overlay from /repo's working tree (tools/instrument) and builds the harness with go build -overlay /verif/build/overlay/overlay.json",
        "baseline_off_cmd": BASELINE_OFF,
        "source_commits": [],
        "add_only": True,
    },
    "engines": ENGINES,
    "checks": checks,
    "not_applicable": na,
    "notes": NOTES,
}
json.dump(manifest, open(os.path.join(ROOT, "MANIFEST.json"), "w"), indent=1)
print("MANIFEST.json: %d checks, %d not_applicable" % (len(checks), len(na)))
