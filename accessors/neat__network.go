package network

// Accessors for the verification harness (/verif); overlay only.

func (n *NNode) VVisited() bool                       { return n.visited }
func (n *NNode) VIsActive() bool                      { return n.isActive }
func (n *NNode) VLastActivations() (float64, float64) { return n.lastActivation, n.lastActivation2 }
func (n *Network) VInputs() []*NNode                  { return n.inputs }

func (s *FastModularNetworkSolver) VSignals() []float64 {
	return append([]float64(nil), s.neuronSignals...)
}
func (s *FastModularNetworkSolver) VSignalsBeingProcessed() []float64 {
	return append([]float64(nil), s.neuronSignalsBeingProcessed...)
}
func (s *FastModularNetworkSolver) VCounts() (bias, in, out, total int) {
	return s.biasNeuronCount, s.inputNeuronCount, s.outputNeuronCount, s.totalNeuronCount
}
