package genetics

// Accessors for the verification harness (/verif). This file is added to the
// package through the build overlay only; it is not part of the repository.

import (
	"context"

	"github.com/yaricom/goNEAT/v4/neat"
	"github.com/yaricom/goNEAT/v4/neat/network"
)

// ---- genome operators ----

func (g *Genome) VDuplicate(id int) (*Genome, error) { return g.duplicate(id) }
func (g *Genome) VVerify() (bool, error)             { return g.verify() }
func (g *Genome) VMutateAddNode(inn InnovationsObserver, ids network.NodeIdGenerator, opts *neat.Options) (bool, error) {
	return g.mutateAddNode(inn, ids, opts)
}
func (g *Genome) VMutateAddLink(inn InnovationsObserver, generation int, opts *neat.Options) (bool, error) {
	return g.mutateAddLink(inn, generation, opts)
}
func (g *Genome) VMutateConnectSensors(inn InnovationsObserver, opts *neat.Options) (bool, error) {
	return g.mutateConnectSensors(inn, opts)
}
func (g *Genome) VMutateLinkWeights(power, rate float64, cold bool) (bool, error) {
	mt := gaussianMutator
	if cold {
		mt = goldGaussianMutator
	}
	return g.mutateLinkWeights(power, rate, mt)
}
func (g *Genome) VMutateRandomTrait(opts *neat.Options) (bool, error) {
	return g.mutateRandomTrait(opts)
}
func (g *Genome) VMutateLinkTrait(times int) (bool, error)    { return g.mutateLinkTrait(times) }
func (g *Genome) VMutateNodeTrait(times int) (bool, error)    { return g.mutateNodeTrait(times) }
func (g *Genome) VMutateToggleEnable(times int) (bool, error) { return g.mutateToggleEnable(times) }
func (g *Genome) VMutateGeneReEnable() (bool, error)          { return g.mutateGeneReEnable() }
func (g *Genome) VMutateAllNonstructural(opts *neat.Options) (bool, error) {
	return g.mutateAllNonstructural(opts)
}
func (g *Genome) VMateMultipoint(og *Genome, id int, f1, f2 float64) (*Genome, error) {
	return g.mateMultipoint(og, id, f1, f2)
}
func (g *Genome) VMateMultipointAvg(og *Genome, id int, f1, f2 float64) (*Genome, error) {
	return g.mateMultipointAvg(og, id, f1, f2)
}
func (g *Genome) VMateSinglePoint(og *Genome, id int) (*Genome, error) {
	return g.mateSinglePoint(og, id)
}
func (g *Genome) VCompatibility(og *Genome, opts *neat.Options) float64 {
	return g.compatibility(og, opts)
}
func (g *Genome) VCompatLinear(og *Genome, opts *neat.Options) float64 {
	return g.compatLinear(og, opts)
}
func (g *Genome) VCompatFast(og *Genome, opts *neat.Options) float64 { return g.compatFast(og, opts) }
func (g *Genome) VNodeMapLen() int                                   { return len(g.nodeByIdMap) }
func (g *Genome) VLastNodeId() (int, error)                          { return g.getLastNodeId() }
func (g *Genome) VNextGeneInnovNum() (int64, error)                  { return g.getNextGeneInnovNum() }

func VNewGenomeRand(newId, in, out, n, maxHidden int, recurrent bool, linkProb float64, opts *neat.Options) (*Genome, error) {
	return newGenomeRand(newId, in, out, n, maxHidden, recurrent, linkProb, opts)
}

func (g *MIMOControlGene) VIONodes() []*network.NNode { return g.ioNodes }

// ---- innovations ----

func (i *Innovation) VIsNode() bool { return i.innovationType == newNodeInnType }

// ---- population ----

func VNewEmptyPopulation() *Population { return newPopulation() }
func (p *Population) VSpeciate(ctx context.Context, orgs []*Organism) error {
	return p.speciate(ctx, orgs)
}
func (p *Population) VInnovationsRaw() []Innovation      { return p.innovations }
func (p *Population) VSetInnovationsRaw(in []Innovation) { p.innovations = in }
func (p *Population) VCounters() (nextInnov int64, nextNode int32) {
	return p.nextInnovNum, p.nextNodeId
}
func (p *Population) VSetCounters(nextInnov int64, nextNode int32) {
	p.nextInnovNum, p.nextNodeId = nextInnov, nextNode
}
func (p *Population) VPurgeZeroOffspringSpecies(generation int) {
	p.purgeZeroOffspringSpecies(generation)
}

// ---- organism ----

func (o *Organism) VOriginalFitness() float64          { return o.originalFitness }
func (o *Organism) VToEliminate() bool                 { return o.toEliminate }
func (o *Organism) VIsChampion() bool                  { return o.isChampion }
func (o *Organism) VSuperChampOffspring() int          { return o.superChampOffspring }
func (o *Organism) VIsPopChampion() bool               { return o.isPopulationChampion }
func (o *Organism) VIsPopChampionChild() bool          { return o.isPopulationChampionChild }
func (o *Organism) VHighestFitness() float64           { return o.highestFitness }
func (o *Organism) VMutStructBaby() bool               { return o.mutationStructBaby }
func (o *Organism) VMateBaby() bool                    { return o.mateBaby }
func (o *Organism) VCachedPhenotype() *network.Network { return o.orgPhenotype }

// ---- species ----

func (s *Species) VAdjustFitness(opts *neat.Options)           { s.adjustFitness(opts) }
func (s *Species) VCountOffspring(skim float64) (int, float64) { return s.countOffspring(skim) }
func (s *Species) VReproduce(ctx context.Context, generation int, pop *Population, sorted []*Species) ([]*Organism, error) {
	return s.reproduce(ctx, generation, pop, sorted)
}
func (s *Species) VAddOrganism(o *Organism) { s.addOrganism(o) }

// ---- executors (phase by phase) ----

func (s *SequentialPopulationEpochExecutor) VPrepare(ctx context.Context, generation int, p *Population) error {
	return s.prepareForReproduction(ctx, generation, p)
}
func (s *SequentialPopulationEpochExecutor) VReproduce(ctx context.Context, generation int, p *Population) error {
	return s.reproduce(ctx, generation, p)
}
func (s *SequentialPopulationEpochExecutor) VFinalize(ctx context.Context, p *Population) error {
	return s.finalizeReproduction(ctx, p)
}
func (s *SequentialPopulationEpochExecutor) VSortedSpecies() []*Species { return s.sortedSpecies }
func (s *SequentialPopulationEpochExecutor) VBestSpeciesId() int        { return s.bestSpeciesId }
func (s *SequentialPopulationEpochExecutor) VSetBestReproduced(b bool)  { s.bestSpeciesReproduced = b }

func (p *ParallelPopulationEpochExecutor) VPrepare(ctx context.Context, generation int, pop *Population) error {
	p.sequential = &SequentialPopulationEpochExecutor{}
	return p.sequential.prepareForReproduction(ctx, generation, pop)
}
func (p *ParallelPopulationEpochExecutor) VReproduce(ctx context.Context, generation int, pop *Population) error {
	return p.reproduce(ctx, generation, pop)
}
func (p *ParallelPopulationEpochExecutor) VFinalize(ctx context.Context, pop *Population) error {
	return p.sequential.finalizeReproduction(ctx, pop)
}
func (p *ParallelPopulationEpochExecutor) VSortedSpecies() []*Species {
	return p.sequential.sortedSpecies
}
