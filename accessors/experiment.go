package experiment

// Accessors for the verification harness (/verif); overlay only.

import "github.com/yaricom/goNEAT/v4/neat/genetics"

func VOrganismComplexity(o *genetics.Organism) int { return organismComplexity(o) }
