module verif

go 1.18

require github.com/yaricom/goNEAT/v4 v4.0.0

require (
	github.com/pkg/errors v0.9.1 // indirect
	github.com/sbinet/npyio v0.8.0 // indirect
	github.com/spf13/cast v1.5.1 // indirect
	golang.org/x/exp v0.0.0-20230321023759-10a507213a29 // indirect
	gonum.org/v1/gonum v0.14.0
	gopkg.in/yaml.v3 v3.0.1 // indirect
)

replace github.com/yaricom/goNEAT/v4 => /repo
