#!/bin/bash
# Run once after a fresh restore (offline): builds the instrumenter, generates
# the overlay from /repo and pre-builds the harness so that the first check
# does not pay for a cold build cache.
set -eu
cd "$(dirname "$0")"
export GOFLAGS=-mod=mod GOPROXY=off GOSUMDB=off GOTOOLCHAIN=local
mkdir -p build evidence replays
cp /repo/go.sum go.sum
go build -o build/instrument ./tools/instrument
./build/instrument -repo /repo -verif /verif -out /verif/build/overlay
go build -overlay build/overlay/overlay.json -o build/mc ./cmd/mc
go build -race -overlay build/overlay/overlay.json -o build/mc-race ./cmd/mc
echo "setup: harness built"
