// Package vsched is the controlled scheduler behind the instrumented goNEAT
// build. With no scheduler installed (pass-through mode) Go/Send/Recv/Close map
// to the plain Go constructs and Point/Access do nothing.
//
// With a scheduler installed every instrumented goroutine becomes a cooperative
// thread: exactly one runs at a time, and at each scheduling point (spawn, mutex
// lock/unlock, wait-group add/done/wait, atomic operation, channel
// send/recv/close, Population method entry) the running thread hands control to
// the scheduler, which asks the explorer which enabled thread goes next.
//
// A vector-clock monitor follows the happens-before edges created by those
// operations and reports unordered conflicting accesses to the anchored shared
// fields (events produced by Access).
package vsched

import (
	"fmt"
	"reflect"
	"runtime/debug"
	"sync"
)

// ---------------------------------------------------------------------------
// public types

// Decision describes one scheduling decision for the explorer.
type Decision struct {
	N              int  // number of enabled threads
	CurrentEnabled bool // the thread that was running is still enabled (it is option 0)
	Chosen         int  // index into the canonical enabled order
}

// Race is an unordered conflicting pair of accesses to an anchored field.
type Race struct {
	Field      string
	T1, T2     int
	Kind1      string
	Kind2      string
	Where1     string
	Where2     string
	StepOfRace int
}

func (r Race) String() string {
	return fmt.Sprintf("race on %s: thread %d %s (%s) unordered with thread %d %s (%s)", r.Field, r.T1, r.Kind1, r.Where1, r.T2, r.Kind2, r.Where2)
}

// Result of one controlled execution.
type Result struct {
	Decisions []Decision
	Threads   int
	Steps     int
	Races     []Race
	Deadlock  bool
	Budget    bool        // step budget exhausted (livelock horizon)
	Panic     interface{} // panic raised by the body or a thread (nil if none)
	PanicTID  int
	Stack     string
	Ops       []string // operation trace (only if Trace is set)
}

// Chooser picks the index (0 <= idx < n) of the next thread among the n enabled
// ones, given in canonical order: the running thread first if it is still
// enabled, then ascending thread ids.
type Chooser func(n int, currentEnabled bool) int

// Config of one controlled execution.
type Config struct {
	Choose   Chooser
	MaxSteps int
	Trace    bool
}

// ---------------------------------------------------------------------------
// scheduler state

type opKind int

const (
	opNone opKind = iota
	opYield
	opLock
	opRLock
	opWait
	opSend
	opRecv
	opStart
)

type op struct {
	kind  opKind
	m     *MutexState
	w     *WGState
	ch    uintptr
	chLen func() (int, int)
	label string
}

type thread struct {
	id    int
	wake  chan struct{}
	done  bool
	pend  op
	vc    []int
	label string
	Draws int

	lastLabel string
}

type chanState struct {
	closed  bool
	vcs     [][]int
	closeVC []int
}

type shadowKey struct {
	obj   uintptr
	field string
}

type accessRec struct {
	tid   int
	clock int
	where string
	kind  string
}

type shadowVar struct {
	lastWrite *accessRec
	reads     map[int]*accessRec
}

type abortSentinel struct{}

// Sched is one controlled execution in progress.
type Sched struct {
	cfg      Config
	threads  []*thread
	cur      *thread
	finished chan struct{}
	aborted  bool
	res      Result
	chans    map[uintptr]*chanState
	atoms    map[uintptr][]int
	shadow   map[shadowKey]*shadowVar
	raceSeen map[string]bool
	all      sync.WaitGroup
}

var active *Sched

// Active reports whether a controlled execution is in progress.
func Active() bool { return active != nil }

// CurrentThread returns the logical id of the running thread (0 when inactive).
func CurrentThread() int {
	if s := active; s != nil && s.cur != nil {
		return s.cur.id
	}
	return 0
}

// NextDrawIndex returns and increments the per-thread draw counter of the
// running thread (used by the random-source hook to answer per thread).
func NextDrawIndex() (tid, idx int) {
	if s := active; s != nil && s.cur != nil {
		i := s.cur.Draws
		s.cur.Draws++
		return s.cur.id, i
	}
	return 0, -1
}

// Run executes body as thread 0 under the controlled scheduler and returns when
// every thread has finished, a deadlock was found, the step budget ran out or a
// thread panicked.
func Run(cfg Config, body func()) Result {
	if active != nil {
		panic("vsched: nested Run")
	}
	if cfg.MaxSteps <= 0 {
		cfg.MaxSteps = 100000
	}
	s := &Sched{cfg: cfg, finished: make(chan struct{}), chans: map[uintptr]*chanState{}, atoms: map[uintptr][]int{},
		shadow: map[shadowKey]*shadowVar{}, raceSeen: map[string]bool{}}
	active = s
	// the monitor identifies shared objects by address: no garbage collection inside one execution, so
	// that an address is never given to a second object while the first one's records are still there
	defer debug.SetGCPercent(debug.SetGCPercent(-1))
	t0 := s.newThread("main")
	t0.vc = []int{1}
	s.cur = t0
	s.all.Add(1)
	go s.threadMain(t0, body)
	t0.wake <- struct{}{}
	<-s.finished
	s.all.Wait()
	active = nil
	s.res.Threads = len(s.threads)
	return s.res
}

func (s *Sched) newThread(label string) *thread {
	t := &thread{id: len(s.threads), wake: make(chan struct{}, 1), label: label}
	s.threads = append(s.threads, t)
	return t
}

func (s *Sched) threadMain(t *thread, f func()) {
	defer s.all.Done()
	<-t.wake
	defer func() {
		if r := recover(); r != nil {
			if _, ok := r.(abortSentinel); !ok && !s.aborted {
				s.res.Panic = r
				s.res.PanicTID = t.id
				s.res.Stack = string(debug.Stack())
				s.abort()
				return
			}
			if s.aborted {
				return
			}
		}
		if s.aborted {
			// the execution was aborted before this thread ran (or while it ran to its end): every
			// thread has been released already, there is nothing left to schedule
			t.done = true
			return
		}
		// normal exit
		t.done = true
		t.pend = op{}
		s.dispatch(t, true)
	}()
	if s.aborted {
		return
	}
	f()
}

// abort ends the execution: every blocked thread is released and unwinds
// through abortSentinel; shim operations become no-ops.
func (s *Sched) abort() {
	if s.aborted {
		return
	}
	s.aborted = true
	for _, t := range s.threads {
		if !t.done {
			select {
			case t.wake <- struct{}{}:
			default:
			}
		}
	}
	close(s.finished)
}

func (s *Sched) enabled(t *thread) bool {
	if t.done {
		return false
	}
	switch t.pend.kind {
	case opLock:
		return !t.pend.m.Locked && t.pend.m.Readers == 0
	case opRLock:
		return !t.pend.m.Locked
	case opWait:
		return t.pend.w.N <= 0
	case opSend:
		l, c := t.pend.chLen()
		return l < c
	case opRecv:
		l, _ := t.pend.chLen()
		if l > 0 {
			return true
		}
		if cs, ok := s.chans[t.pend.ch]; ok && cs.closed {
			return true
		}
		return false
	case opNone:
		return false
	}
	return true
}

// dispatch is called by the running thread t after it registered its pending
// operation (or finished). It selects the next thread; if that is another
// thread, t blocks until it is selected again.
func (s *Sched) dispatch(t *thread, exiting bool) {
	s.res.Steps++
	if s.res.Steps > s.cfg.MaxSteps {
		s.res.Budget = true
		s.abort()
		if !exiting {
			panic(abortSentinel{})
		}
		return
	}
	var en []*thread
	curEnabled := !exiting && s.enabled(t)
	if curEnabled {
		en = append(en, t)
	}
	for _, o := range s.threads {
		if o != t && s.enabled(o) {
			en = append(en, o)
		}
	}
	if len(en) == 0 {
		alive := false
		for _, o := range s.threads {
			if !o.done {
				alive = true
			}
		}
		if alive {
			s.res.Deadlock = true
			s.abort()
			if !exiting {
				panic(abortSentinel{})
			}
			return
		}
		// everything finished
		s.aborted = true
		close(s.finished)
		return
	}
	idx := 0
	if len(en) > 1 {
		idx = s.cfg.Choose(len(en), curEnabled)
		if idx < 0 || idx >= len(en) {
			panic(fmt.Sprintf("vsched: chooser returned %d for %d enabled threads", idx, len(en)))
		}
		s.res.Decisions = append(s.res.Decisions, Decision{N: len(en), CurrentEnabled: curEnabled, Chosen: idx})
	}
	next := en[idx]
	if next == t {
		return
	}
	s.cur = next
	next.wake <- struct{}{}
	if exiting {
		return
	}
	<-t.wake
	if s.aborted {
		panic(abortSentinel{})
	}
}

// yield registers o as the pending operation of the running thread and hands
// control to the scheduler; on return the thread has been selected and the
// operation is enabled.
func (s *Sched) yield(o op) {
	t := s.cur
	t.pend = o
	t.lastLabel = o.label
	if s.cfg.Trace {
		s.res.Ops = append(s.res.Ops, fmt.Sprintf("t%d:%s", t.id, o.label))
	}
	s.dispatch(t, false)
	t.pend = op{kind: opYield}
}

// ---------------------------------------------------------------------------
// vector clocks

func join(a, b []int) []int {
	if len(b) > len(a) {
		a = append(a, make([]int, len(b)-len(a))...)
	}
	for i, v := range b {
		if v > a[i] {
			a[i] = v
		}
	}
	return a
}

func clone(a []int) []int { return append([]int(nil), a...) }

func (t *thread) tick() {
	for len(t.vc) <= t.id {
		t.vc = append(t.vc, 0)
	}
	t.vc[t.id]++
}

func (t *thread) clockOf(tid int) int {
	if tid < len(t.vc) {
		return t.vc[tid]
	}
	return 0
}

// ---------------------------------------------------------------------------
// API used by instrumented code

// Go starts f as a new cooperative thread (or a plain goroutine in pass-through mode).
func Go(f func()) {
	s := active
	if s == nil {
		go f()
		return
	}
	if s.aborted {
		return
	}
	parent := s.cur
	child := s.newThread("go")
	parent.tick()
	child.vc = clone(parent.vc)
	child.tick()
	child.pend = op{kind: opStart, label: "start"}
	s.all.Add(1)
	go s.threadMain(child, f)
	s.yield(op{kind: opYield, label: "spawn"})
}

// Point is a plain scheduling point.
func Point(label string) {
	s := active
	if s == nil || s.aborted {
		return
	}
	s.yield(op{kind: opYield, label: label})
}

func chanKey(ch interface{}) uintptr { return reflect.ValueOf(ch).Pointer() }

// Send performs ch <- v.
func Send[T any](ch chan<- T, v T) {
	s := active
	if s == nil {
		ch <- v
		return
	}
	if s.aborted {
		return
	}
	if cap(ch) == 0 {
		panic("vsched: unsupported construct: unbuffered channel")
	}
	k := chanKey(ch)
	s.yield(op{kind: opSend, ch: k, chLen: func() (int, int) { return len(ch), cap(ch) }, label: "send"})
	cs := s.chanOf(k)
	if cs.closed {
		panic("send on closed channel")
	}
	t := s.cur
	t.tick()
	cs.vcs = append(cs.vcs, clone(t.vc))
	ch <- v
}

// Close performs close(ch).
func Close[T any](ch chan<- T) {
	s := active
	if s == nil {
		close(ch)
		return
	}
	if s.aborted {
		return
	}
	k := chanKey(ch)
	s.yield(op{kind: opYield, label: "close"})
	cs := s.chanOf(k)
	t := s.cur
	t.tick()
	cs.closed = true
	cs.closeVC = clone(t.vc)
	close(ch)
}

// Recv performs v, ok := <-ch.
func Recv[T any](ch <-chan T) (T, bool) {
	s := active
	if s == nil {
		v, ok := <-ch
		return v, ok
	}
	var zero T
	if s.aborted {
		return zero, false
	}
	k := chanKey(ch)
	s.yield(op{kind: opRecv, ch: k, chLen: func() (int, int) { return len(ch), cap(ch) }, label: "recv"})
	cs := s.chanOf(k)
	t := s.cur
	if len(ch) > 0 {
		if len(cs.vcs) > 0 {
			t.vc = join(t.vc, cs.vcs[0])
			cs.vcs = cs.vcs[1:]
		}
		v, ok := <-ch
		return v, ok
	}
	// closed and drained
	t.vc = join(t.vc, cs.closeVC)
	return zero, false
}

// Recv1 performs v := <-ch.
func Recv1[T any](ch <-chan T) T {
	v, _ := Recv(ch)
	return v
}

func (s *Sched) chanOf(k uintptr) *chanState {
	cs, ok := s.chans[k]
	if !ok {
		cs = &chanState{}
		s.chans[k] = cs
	}
	return cs
}

// Access reports a read ("R") or write ("W") of an anchored shared field to the
// happens-before monitor. It is not a scheduling point.
func Access(obj interface{}, field, kind string) {
	s := active
	if s == nil || s.aborted {
		return
	}
	var base uintptr
	rv := reflect.ValueOf(obj)
	switch rv.Kind() {
	case reflect.Ptr, reflect.Map, reflect.Slice, reflect.Chan, reflect.Func, reflect.UnsafePointer:
		base = rv.Pointer()
	}
	if rv.Kind() == reflect.Slice && base == 0 {
		return // a nil / empty slice has no backing array to race on
	}
	t := s.cur
	key := shadowKey{base, field}
	sv, ok := s.shadow[key]
	if !ok {
		sv = &shadowVar{reads: map[int]*accessRec{}}
		s.shadow[key] = sv
	}
	where := t.pendLabel()
	rec := &accessRec{tid: t.id, clock: t.clockOf(t.id), where: where, kind: kind}
	report := func(prev *accessRec) {
		if prev == nil || prev.tid == t.id {
			return
		}
		if prev.clock <= t.clockOf(prev.tid) {
			return // ordered
		}
		sig := fmt.Sprintf("%s|%s|%s", field, prev.kind, kind)
		if s.raceSeen[sig] {
			return
		}
		s.raceSeen[sig] = true
		s.res.Races = append(s.res.Races, Race{Field: field, T1: prev.tid, T2: t.id, Kind1: prev.kind, Kind2: kind,
			Where1: prev.where, Where2: where, StepOfRace: s.res.Steps})
	}
	if kind == "W" {
		report(sv.lastWrite)
		for _, r := range sv.reads {
			report(r)
		}
		sv.lastWrite = rec
		sv.reads = map[int]*accessRec{}
	} else {
		report(sv.lastWrite)
		sv.reads[t.id] = rec
	}
}

func (t *thread) pendLabel() string { return t.lastLabel }

// ---------------------------------------------------------------------------
// primitives used by vsync / vatomic

// MutexState is the scheduler-visible state of a vsync mutex.
type MutexState struct {
	Locked  bool
	Readers int
	VC      []int
}

// WGState is the scheduler-visible state of a vsync wait group.
type WGState struct {
	N  int
	VC []int
}

func MutexLock(m *MutexState) {
	s := active
	if s.aborted {
		return
	}
	s.yield(op{kind: opLock, m: m, label: "lock"})
	m.Locked = true
	s.cur.vc = join(s.cur.vc, m.VC)
}

func MutexTryLock(m *MutexState) bool {
	s := active
	if s.aborted {
		return false
	}
	s.yield(op{kind: opYield, label: "trylock"})
	if m.Locked || m.Readers > 0 {
		return false
	}
	m.Locked = true
	s.cur.vc = join(s.cur.vc, m.VC)
	return true
}

func MutexUnlock(m *MutexState) {
	s := active
	if s.aborted {
		return
	}
	if !m.Locked {
		panic("sync: unlock of unlocked mutex")
	}
	t := s.cur
	t.tick()
	m.VC = join(clone(m.VC), t.vc)
	m.Locked = false
	s.yield(op{kind: opYield, label: "unlock"})
}

func MutexRLock(m *MutexState) {
	s := active
	if s.aborted {
		return
	}
	s.yield(op{kind: opRLock, m: m, label: "rlock"})
	m.Readers++
	s.cur.vc = join(s.cur.vc, m.VC)
}

func MutexRUnlock(m *MutexState) {
	s := active
	if s.aborted {
		return
	}
	if m.Readers <= 0 {
		panic("sync: RUnlock of unlocked RWMutex")
	}
	t := s.cur
	t.tick()
	m.VC = join(clone(m.VC), t.vc)
	m.Readers--
	s.yield(op{kind: opYield, label: "runlock"})
}

func WGAdd(w *WGState, n int) {
	s := active
	if s.aborted {
		return
	}
	t := s.cur
	if n < 0 {
		t.tick()
		w.VC = join(clone(w.VC), t.vc)
	}
	w.N += n
	if w.N < 0 {
		panic("sync: negative WaitGroup counter")
	}
	lbl := "wg.add"
	if n < 0 {
		lbl = "wg.done"
	}
	s.yield(op{kind: opYield, label: lbl})
}

func WGWait(w *WGState) {
	s := active
	if s.aborted {
		return
	}
	s.yield(op{kind: opWait, w: w, label: "wg.wait"})
	s.cur.vc = join(s.cur.vc, w.VC)
}

// Atomic brackets one atomic operation on addr: a scheduling point before it and
// an acquire+release edge on the address.
func Atomic(addr uintptr, label string) {
	s := active
	if s == nil || s.aborted {
		return
	}
	s.yield(op{kind: opYield, label: label})
	t := s.cur
	t.vc = join(t.vc, s.atoms[addr])
	t.tick()
	s.atoms[addr] = clone(t.vc)
}
