// Package vatomic stands in for sync/atomic inside the instrumented goNEAT
// build: every operation is a scheduling point plus an acquire/release edge on
// the address under the controlled scheduler, and the plain atomic otherwise.
package vatomic

import (
	"sync/atomic"
	"unsafe"

	"github.com/yaricom/goNEAT/v4/neat/vsched"
)

type Value = atomic.Value

func pt(p unsafe.Pointer, l string) { vsched.Atomic(uintptr(p), l) }

func AddInt32(addr *int32, delta int32) int32 {
	pt(unsafe.Pointer(addr), "atomic.AddInt32")
	return atomic.AddInt32(addr, delta)
}
func AddInt64(addr *int64, delta int64) int64 {
	pt(unsafe.Pointer(addr), "atomic.AddInt64")
	return atomic.AddInt64(addr, delta)
}
func AddUint32(addr *uint32, delta uint32) uint32 {
	pt(unsafe.Pointer(addr), "atomic.AddUint32")
	return atomic.AddUint32(addr, delta)
}
func AddUint64(addr *uint64, delta uint64) uint64 {
	pt(unsafe.Pointer(addr), "atomic.AddUint64")
	return atomic.AddUint64(addr, delta)
}
func LoadInt32(addr *int32) int32 {
	pt(unsafe.Pointer(addr), "atomic.LoadInt32")
	return atomic.LoadInt32(addr)
}
func LoadInt64(addr *int64) int64 {
	pt(unsafe.Pointer(addr), "atomic.LoadInt64")
	return atomic.LoadInt64(addr)
}
func LoadUint32(addr *uint32) uint32 {
	pt(unsafe.Pointer(addr), "atomic.LoadUint32")
	return atomic.LoadUint32(addr)
}
func LoadUint64(addr *uint64) uint64 {
	pt(unsafe.Pointer(addr), "atomic.LoadUint64")
	return atomic.LoadUint64(addr)
}
func StoreInt32(addr *int32, v int32) {
	pt(unsafe.Pointer(addr), "atomic.StoreInt32")
	atomic.StoreInt32(addr, v)
}
func StoreInt64(addr *int64, v int64) {
	pt(unsafe.Pointer(addr), "atomic.StoreInt64")
	atomic.StoreInt64(addr, v)
}
func StoreUint32(addr *uint32, v uint32) {
	pt(unsafe.Pointer(addr), "atomic.StoreUint32")
	atomic.StoreUint32(addr, v)
}
func StoreUint64(addr *uint64, v uint64) {
	pt(unsafe.Pointer(addr), "atomic.StoreUint64")
	atomic.StoreUint64(addr, v)
}
func SwapInt32(addr *int32, v int32) int32 {
	pt(unsafe.Pointer(addr), "atomic.SwapInt32")
	return atomic.SwapInt32(addr, v)
}
func SwapInt64(addr *int64, v int64) int64 {
	pt(unsafe.Pointer(addr), "atomic.SwapInt64")
	return atomic.SwapInt64(addr, v)
}
func CompareAndSwapInt32(addr *int32, old, new int32) bool {
	pt(unsafe.Pointer(addr), "atomic.CompareAndSwapInt32")
	return atomic.CompareAndSwapInt32(addr, old, new)
}
func CompareAndSwapInt64(addr *int64, old, new int64) bool {
	pt(unsafe.Pointer(addr), "atomic.CompareAndSwapInt64")
	return atomic.CompareAndSwapInt64(addr, old, new)
}
func CompareAndSwapUint32(addr *uint32, old, new uint32) bool {
	pt(unsafe.Pointer(addr), "atomic.CompareAndSwapUint32")
	return atomic.CompareAndSwapUint32(addr, old, new)
}
func CompareAndSwapUint64(addr *uint64, old, new uint64) bool {
	pt(unsafe.Pointer(addr), "atomic.CompareAndSwapUint64")
	return atomic.CompareAndSwapUint64(addr, old, new)
}

type Int32 = atomic.Int32
type Int64 = atomic.Int64
type Uint32 = atomic.Uint32
type Uint64 = atomic.Uint64
type Bool = atomic.Bool
