// Package vsync stands in for sync inside the instrumented goNEAT build.
// In pass-through mode every type behaves like its sync counterpart; under the
// controlled scheduler Mutex, RWMutex, WaitGroup and Once become cooperative
// primitives whose operations are scheduling points and happens-before edges.
package vsync

import (
	"sync"

	"github.com/yaricom/goNEAT/v4/neat/vsched"
)

type Locker = sync.Locker
type Cond = sync.Cond
type Map = sync.Map

func NewCond(l Locker) *Cond { return sync.NewCond(l) }

// Pool: sync.Pool hands back an arbitrary previously Put item (or calls New), chosen by the runtime
// (per-P caches, random drops under the race detector) - nondeterminism the explorer would not own.
// The stand-in is a last-in-first-out free list, one legal behaviour of sync.Pool and the one that
// maximises reuse; Get and Put are scheduling points under the controlled scheduler.
type Pool struct {
	New   func() any
	mu    sync.Mutex
	items []any
}

func (p *Pool) Get() any {
	if vsched.Active() {
		vsched.Point("Pool.Get")
	}
	p.mu.Lock()
	if n := len(p.items); n > 0 {
		x := p.items[n-1]
		p.items = p.items[:n-1]
		p.mu.Unlock()
		return x
	}
	p.mu.Unlock()
	if p.New != nil {
		return p.New()
	}
	return nil
}

func (p *Pool) Put(x any) {
	if x == nil {
		return
	}
	if vsched.Active() {
		vsched.Point("Pool.Put")
	}
	p.mu.Lock()
	p.items = append(p.items, x)
	p.mu.Unlock()
}

type Mutex struct {
	mu sync.Mutex
	st vsched.MutexState
}

func (m *Mutex) Lock() {
	if vsched.Active() {
		vsched.MutexLock(&m.st)
		return
	}
	m.mu.Lock()
}

func (m *Mutex) Unlock() {
	if vsched.Active() {
		vsched.MutexUnlock(&m.st)
		return
	}
	m.mu.Unlock()
}

func (m *Mutex) TryLock() bool {
	if vsched.Active() {
		return vsched.MutexTryLock(&m.st)
	}
	return m.mu.TryLock()
}

type RWMutex struct {
	mu sync.RWMutex
	st vsched.MutexState
}

func (m *RWMutex) Lock() {
	if vsched.Active() {
		vsched.MutexLock(&m.st)
		return
	}
	m.mu.Lock()
}

func (m *RWMutex) Unlock() {
	if vsched.Active() {
		vsched.MutexUnlock(&m.st)
		return
	}
	m.mu.Unlock()
}

func (m *RWMutex) RLock() {
	if vsched.Active() {
		vsched.MutexRLock(&m.st)
		return
	}
	m.mu.RLock()
}

func (m *RWMutex) RUnlock() {
	if vsched.Active() {
		vsched.MutexRUnlock(&m.st)
		return
	}
	m.mu.RUnlock()
}

func (m *RWMutex) RLocker() Locker { return (*rlocker)(m) }

type rlocker RWMutex

func (r *rlocker) Lock()   { (*RWMutex)(r).RLock() }
func (r *rlocker) Unlock() { (*RWMutex)(r).RUnlock() }

type WaitGroup struct {
	wg sync.WaitGroup
	st vsched.WGState
}

func (w *WaitGroup) Add(n int) {
	if vsched.Active() {
		vsched.WGAdd(&w.st, n)
		return
	}
	w.wg.Add(n)
}

func (w *WaitGroup) Done() { w.Add(-1) }

func (w *WaitGroup) Wait() {
	if vsched.Active() {
		vsched.WGWait(&w.st)
		return
	}
	w.wg.Wait()
}

type Once struct {
	m    Mutex
	done bool
}

func (o *Once) Do(f func()) {
	o.m.Lock()
	defer o.m.Unlock()
	if !o.done {
		defer func() { o.done = true }()
		f()
	}
}
