// Package vmap owns the iteration order of maps inside the instrumented goNEAT build.
//
// Go picks the starting point of every range over a map at random and the choice cannot be
// intercepted at run time, so the instrumenter rewrites `for k, v := range m` (m syntactically
// known to be a map) into a loop over vmap.Keys(m). The order of the keys is an answer of the
// harness: ascending, descending or rotated. With order Native the runtime's own order is kept
// (pass-through builds, the free-running race pass).
package vmap

import (
	"fmt"
	"sort"
	"sync/atomic"
)

const (
	Native     = -1
	Ascending  = 0
	Descending = 1
	Rotated    = 2 // ascending order started in the middle
)

var order int32 = Native

// Ranges counts range statements executed over maps with at least two keys (the only ones on
// which the order can matter); Unordered counts those whose key type has no canonical order
// (pointers, interfaces holding pointers): they keep the runtime's order.
var Ranges, Unordered int64

func SetOrder(o int) { atomic.StoreInt32(&order, int32(o)) }
func Order() int     { return int(atomic.LoadInt32(&order)) }

func less(a, b interface{}) (lt bool, ok bool) {
	switch x := a.(type) {
	case int:
		return x < b.(int), true
	case int8:
		return x < b.(int8), true
	case int16:
		return x < b.(int16), true
	case int32:
		return x < b.(int32), true
	case int64:
		return x < b.(int64), true
	case uint:
		return x < b.(uint), true
	case uint8:
		return x < b.(uint8), true
	case uint16:
		return x < b.(uint16), true
	case uint32:
		return x < b.(uint32), true
	case uint64:
		return x < b.(uint64), true
	case float32:
		return x < b.(float32), true
	case float64:
		return x < b.(float64), true
	case string:
		return x < b.(string), true
	case bool:
		return !x && b.(bool), true
	}
	return false, false
}

// Keys returns the keys of m in the order the harness asked for.
func Keys[M ~map[K]V, K comparable, V any](m M) []K {
	keys := make([]K, 0, len(m))
	for k := range m {
		keys = append(keys, k)
	}
	o := Order()
	if o == Native || len(keys) < 2 {
		return keys
	}
	atomic.AddInt64(&Ranges, 1)
	var k0 interface{} = keys[0]
	if _, ok := less(k0, k0); !ok {
		// named basic types and structs of basic fields print canonically; anything holding a pointer does not
		s := fmt.Sprintf("%T", k0)
		canonical := true
		for _, c := range s {
			if c == '*' {
				canonical = false
			}
		}
		if !canonical {
			atomic.AddInt64(&Unordered, 1)
			return keys
		}
		sort.SliceStable(keys, func(i, j int) bool { return fmt.Sprintf("%#v", keys[i]) < fmt.Sprintf("%#v", keys[j]) })
	} else {
		sort.SliceStable(keys, func(i, j int) bool { lt, _ := less(keys[i], keys[j]); return lt })
	}
	switch o {
	case Descending:
		for i, j := 0, len(keys)-1; i < j; i, j = i+1, j-1 {
			keys[i], keys[j] = keys[j], keys[i]
		}
	case Rotated:
		h := len(keys) / 2
		keys = append(append([]K{}, keys[h:]...), keys[:h]...)
	}
	return keys
}
