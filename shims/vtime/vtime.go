// Package vtime stands in for package time inside the instrumented goNEAT build: the types are
// aliases of the real ones, the clock is the harness's. With no base set (pass-through) Now is the
// real clock. With a base set, the n-th reading of the clock returns base + n*step, so that two
// executions can be given clocks that differ in every unit (year ... nanosecond) and a dependence
// of the evolved population on the wall clock shows deterministically instead of by luck.
package vtime

import (
	"sync"
	"time"
)

type (
	Time     = time.Time
	Duration = time.Duration
	Month    = time.Month
	Weekday  = time.Weekday
	Location = time.Location
	Timer    = time.Timer
	Ticker   = time.Ticker
)

const (
	Nanosecond  = time.Nanosecond
	Microsecond = time.Microsecond
	Millisecond = time.Millisecond
	Second      = time.Second
	Minute      = time.Minute
	Hour        = time.Hour

	RFC3339     = time.RFC3339
	RFC3339Nano = time.RFC3339Nano
	RFC1123     = time.RFC1123
	Kitchen     = time.Kitchen
	ANSIC       = time.ANSIC
	UnixDate    = time.UnixDate
	Layout      = time.Layout
	DateTime    = "2006-01-02 15:04:05"
)

const (
	January   = time.January
	February  = time.February
	March     = time.March
	April     = time.April
	May       = time.May
	June      = time.June
	July      = time.July
	August    = time.August
	September = time.September
	October   = time.October
	November  = time.November
	December  = time.December

	Sunday    = time.Sunday
	Monday    = time.Monday
	Tuesday   = time.Tuesday
	Wednesday = time.Wednesday
	Thursday  = time.Thursday
	Friday    = time.Friday
	Saturday  = time.Saturday

	RFC822     = time.RFC822
	RFC850     = time.RFC850
	RFC1123Z   = time.RFC1123Z
	Stamp      = time.Stamp
	StampMilli = time.StampMilli
	StampMicro = time.StampMicro
	StampNano  = time.StampNano
	DateOnly   = "2006-01-02"
	TimeOnly   = "15:04:05"
)

type ParseError = time.ParseError

func ParseInLocation(layout, v string, l *time.Location) (time.Time, error) {
	return time.ParseInLocation(layout, v, l)
}

var (
	UTC   = time.UTC
	Local = time.Local
)

var (
	mu       sync.Mutex
	owned    bool
	base     time.Time
	step     time.Duration
	readings int64
)

// SetClock makes the clock the harness's: reading n returns b + n*st. Readings counts from 0 again.
func SetClock(b time.Time, st time.Duration) {
	mu.Lock()
	owned, base, step, readings = true, b, st, 0
	mu.Unlock()
}

// RealClock hands the clock back to the runtime.
func RealClock() { mu.Lock(); owned = false; mu.Unlock() }

// Readings: how often the code under test read the clock since SetClock.
func Readings() int64 { mu.Lock(); defer mu.Unlock(); return readings }

func Now() time.Time {
	mu.Lock()
	defer mu.Unlock()
	if !owned {
		return time.Now()
	}
	t := base.Add(time.Duration(readings) * step)
	readings++
	return t
}

func Since(t time.Time) time.Duration { return Now().Sub(t) }
func Until(t time.Time) time.Duration { return t.Sub(Now()) }

// pass-through: constructors and conversions that do not read the clock
func Unix(sec, nsec int64) time.Time { return time.Unix(sec, nsec) }
func UnixMilli(ms int64) time.Time   { return time.UnixMilli(ms) }
func UnixMicro(us int64) time.Time   { return time.UnixMicro(us) }
func Date(y int, m time.Month, d, h, mi, s, ns int, l *time.Location) time.Time {
	return time.Date(y, m, d, h, mi, s, ns, l)
}
func Parse(layout, v string) (time.Time, error)        { return time.Parse(layout, v) }
func ParseDuration(s string) (time.Duration, error)    { return time.ParseDuration(s) }
func FixedZone(name string, off int) *time.Location    { return time.FixedZone(name, off) }
func LoadLocation(name string) (*time.Location, error) { return time.LoadLocation(name) }

// waiting: left to the runtime (the code under test never waits on the clock; a change that
// makes it do so is outside what this shim owns and is counted)
var Waits int64

func Sleep(d time.Duration)                           { Waits++; time.Sleep(d) }
func After(d time.Duration) <-chan time.Time          { Waits++; return time.After(d) }
func Tick(d time.Duration) <-chan time.Time           { Waits++; return time.Tick(d) }
func NewTimer(d time.Duration) *time.Timer            { Waits++; return time.NewTimer(d) }
func NewTicker(d time.Duration) *time.Ticker          { Waits++; return time.NewTicker(d) }
func AfterFunc(d time.Duration, f func()) *time.Timer { Waits++; return time.AfterFunc(d, f) }
