// Package vrand stands in for math/rand inside the instrumented goNEAT build.
//
// With no hook installed every function delegates to math/rand, so the
// instrumented code behaves exactly like the original (pass-through mode).
// With a hook installed every draw the library makes becomes a choice point
// that the explorer answers.
package vrand

import (
	mrand "math/rand"
)

// Hook answers the draws of the code under test.
type Hook interface {
	Float64() float64
	Float32() float32
	Intn(n int) int
	Int31n(n int32) int32
	Int() int
}

var hook Hook

// Unowned counts calls to functions of math/rand that the explorer does not
// own (none are used by the pinned tree); a check that sees this counter move
// reports "nondeterminism not owned" instead of trusting its verdict.
var Unowned int64

// SetHook installs (or, with nil, removes) the explorer's answer source.
func SetHook(h Hook) { hook = h }

// HookInstalled reports whether draws are currently answered by an explorer.
func HookInstalled() bool { return hook != nil }

func Float64() float64 {
	if h := hook; h != nil {
		return h.Float64()
	}
	return mrand.Float64()
}

func Float32() float32 {
	if h := hook; h != nil {
		return h.Float32()
	}
	return mrand.Float32()
}

func Intn(n int) int {
	if h := hook; h != nil {
		if n <= 0 {
			panic("invalid argument to Intn")
		}
		return h.Intn(n)
	}
	return mrand.Intn(n)
}

func Int31n(n int32) int32 {
	if h := hook; h != nil {
		if n <= 0 {
			panic("invalid argument to Int31n")
		}
		return h.Int31n(n)
	}
	return mrand.Int31n(n)
}

func Int() int {
	if h := hook; h != nil {
		return h.Int()
	}
	return mrand.Int()
}

func Seed(seed int64) { mrand.Seed(seed) }

// ---- the rest of the math/rand surface: pass-through, counted as unowned when a hook is active ----

type Rand = mrand.Rand
type Source = mrand.Source
type Source64 = mrand.Source64
type Zipf = mrand.Zipf

func unowned() {
	if hook != nil {
		Unowned++
	}
}

func New(src Source) *Rand               { unowned(); return mrand.New(src) }
func NewSource(seed int64) Source        { unowned(); return mrand.NewSource(seed) }
func Int63() int64                       { unowned(); return mrand.Int63() }
func Int31() int32                       { unowned(); return mrand.Int31() }
func Uint32() uint32                     { unowned(); return mrand.Uint32() }
func Uint64() uint64                     { unowned(); return mrand.Uint64() }
func Int63n(n int64) int64               { unowned(); return mrand.Int63n(n) }
func NormFloat64() float64               { unowned(); return mrand.NormFloat64() }
func ExpFloat64() float64                { unowned(); return mrand.ExpFloat64() }
func Perm(n int) []int                   { unowned(); return mrand.Perm(n) }
func Shuffle(n int, swap func(i, j int)) { unowned(); mrand.Shuffle(n, swap) }
func Read(p []byte) (int, error)         { unowned(); return mrand.Read(p) }
