package main

import (
	"fmt"

	"github.com/yaricom/goNEAT/v4/neat/network"
)

// C05 — structural and parametric mutations change exactly what they document.
//
// E2: for every GenomeSpace state x every mutator x every choice sequence within
// the operator bound (x two innovation-record regimes for the structural ones:
// the shared record of the search, where an innovation discovered earlier is
// matched, and an empty record, where it is novel) the before/after relation of
// the statement is evaluated on pointer-free snapshots.

func init() { register("C05", "model_checking", runC05, replayOperator("C05", c05Oracle)) }

func geneMap(s *GenomeSpec) map[int64]GeneSpec {
	m := map[int64]GeneSpec{}
	for _, g := range s.Genes {
		m[g.Innov] = g
	}
	return m
}

func geneBitEqual(a, b GeneSpec) bool {
	return a.In == b.In && a.Out == b.Out && a.Rec == b.Rec && a.Innov == b.Innov && a.En == b.En && a.Trait == b.Trait &&
		sameF(a.W, b.W) && sameF(a.Mut, b.Mut)
}

func traitsKey(s *GenomeSpec) string {
	k := ""
	for _, t := range s.Traits {
		k += fmt.Sprintf("T%d(", t.ID)
		for _, p := range t.Params {
			k += fb(p) + ","
		}
		k += ")"
	}
	return k
}

func nodesKey(s *GenomeSpec) string {
	k := ""
	for _, n := range s.Nodes {
		k += fmt.Sprintf("N%d:%d:%d:%d;", n.ID, n.Role, n.Act, n.Trait)
	}
	return k
}

// structureKey: node ids/roles and gene (innovation, endpoints, recurrence) in order.
func structureKey(s *GenomeSpec) string {
	k := ""
	for _, n := range s.Nodes {
		k += fmt.Sprintf("N%d:%d;", n.ID, n.Role)
	}
	k += "|"
	for _, g := range s.Genes {
		k += fmt.Sprintf("G%d:%d>%d:%v;", g.Innov, g.In, g.Out, g.Rec)
	}
	return k
}

func isSensorRole(r network.NodeNeuronType) bool {
	return r == network.InputNeuron || r == network.BiasNeuron
}

func c05Oracle(c *Ctx) func(t *gsTransition) {
	return func(t *gsTransition) {
		fail := func(clause, msg string) { gsViolate(c, "C05", t, clause, msg) }
		b, a := t.Before, t.After
		if t.Err != nil {
			c.Count("mutator_returned_error", 1)
			return
		}
		bg, ag := geneMap(b), geneMap(a)
		roles := nodeRoles(b)
		var newGenes []GeneSpec
		for _, g := range a.Genes {
			if _, ok := bg[g.Innov]; !ok {
				newGenes = append(newGenes, g)
			}
		}
		var newNodes []NodeSpec
		for _, n := range a.Nodes {
			if _, ok := roles[n.ID]; !ok {
				newNodes = append(newNodes, n)
			}
		}
		oldKept := func(allowDisableOne bool) (disabled *GeneSpec, ok bool) {
			for _, g := range b.Genes {
				h, present := ag[g.Innov]
				if !present {
					fail("gene-removed", fmt.Sprintf("gene #%d disappeared", g.Innov))
					return nil, false
				}
				if geneBitEqual(g, h) {
					continue
				}
				h2 := h
				h2.En = g.En
				if allowDisableOne && geneBitEqual(g, h2) && g.En && !h.En && disabled == nil {
					gg := g
					disabled = &gg
					continue
				}
				fail("other-gene-changed", fmt.Sprintf("gene #%d changed although the mutation does not concern it (%+v -> %+v)", g.Innov, g, h))
				return nil, false
			}
			return disabled, true
		}
		restEqual := func() bool {
			if traitsKey(a) != traitsKey(b) {
				fail("traits-changed", "trait parameters changed")
				return false
			}
			// old nodes unchanged
			an := map[int]NodeSpec{}
			for _, n := range a.Nodes {
				an[n.ID] = n
			}
			for _, n := range b.Nodes {
				if an[n.ID] != n {
					fail("node-changed", fmt.Sprintf("node %d changed (%+v -> %+v)", n.ID, n, an[n.ID]))
					return false
				}
			}
			return true
		}
		switch t.Op {
		case "addNode":
			if !t.OK {
				if len(newGenes) > 0 || len(newNodes) > 0 {
					fail("failed-mutation-added-structure", fmt.Sprintf("add-node reported failure but added %d genes and %d nodes", len(newGenes), len(newNodes)))
				}
				return
			}
			c.Count("addNode_success_"+t.Regime, 1)
			dis, ok := oldKept(true)
			if !ok || !restEqual() {
				return
			}
			if dis == nil {
				fail("no-gene-disabled", "add-node succeeded but no previously enabled gene was disabled")
				return
			}
			if len(newNodes) != 1 || newNodes[0].Role != network.HiddenNeuron {
				fail("new-node", fmt.Sprintf("add-node must add exactly one hidden node, added %d", len(newNodes)))
				return
			}
			n := newNodes[0].ID
			if len(newGenes) != 2 {
				fail("new-genes", fmt.Sprintf("add-node must add exactly two genes, added %d", len(newGenes)))
				return
			}
			var g1, g2 *GeneSpec
			for i := range newGenes {
				g := &newGenes[i]
				if g.In == dis.In && g.Out == n {
					g1 = g
				} else if g.In == n && g.Out == dis.Out {
					g2 = g
				}
			}
			if g1 == nil || g2 == nil {
				fail("new-genes", fmt.Sprintf("splitting #%d (%d->%d) must add %d->%d and %d->%d; added %+v", dis.Innov, dis.In, dis.Out, dis.In, n, n, dis.Out, newGenes))
				return
			}
			if !g1.En || !g2.En {
				fail("new-genes-enabled", "the two new genes must be enabled")
				return
			}
			if g1.W != 1 || g1.Rec != dis.Rec {
				fail("in-gene", fmt.Sprintf("gene %d->%d must have weight 1 and keep the old recurrence flag %v; has weight %g, recurrent=%v", g1.In, g1.Out, dis.Rec, g1.W, g1.Rec))
				return
			}
			if !sameF(g2.W, dis.W) || g2.Rec {
				fail("out-gene", fmt.Sprintf("gene %d->%d must have the old weight %g and be non-recurrent; has weight %g, recurrent=%v", g2.In, g2.Out, dis.W, g2.W, g2.Rec))
				return
			}
			if dis.Rec {
				c.Count("addNode_split_recurrent_gene", 1)
			}
		case "addLink":
			if !t.OK {
				if len(newGenes) > 0 || len(newNodes) > 0 {
					fail("failed-mutation-added-structure", "add-link reported failure but added structure")
				}
				return
			}
			c.Count("addLink_success_"+t.Regime, 1)
			if _, ok := oldKept(false); !ok || !restEqual() {
				return
			}
			if len(newNodes) != 0 {
				fail("node-added", "add-link added a node")
				return
			}
			if len(newGenes) != 1 {
				fail("new-gene-count", fmt.Sprintf("add-link succeeded and added %d genes instead of exactly one", len(newGenes)))
				return
			}
			g := newGenes[0]
			ri, okI := roles[g.In]
			ro, okO := roles[g.Out]
			_ = ri
			if !okI || !okO {
				fail("endpoint-not-existing", fmt.Sprintf("new gene %d->%d does not join two existing nodes", g.In, g.Out))
				return
			}
			if isSensorRole(ro) {
				fail("sensor-target", fmt.Sprintf("new gene %d->%d ends in a sensor", g.In, g.Out))
				return
			}
			for _, o := range b.Genes {
				if o.In == g.In && o.Out == g.Out && o.Rec == g.Rec {
					fail("duplicate-link", fmt.Sprintf("new gene #%d duplicates the link of gene #%d (%d->%d rec=%v)", g.Innov, o.Innov, o.In, o.Out, o.Rec))
					return
				}
			}
			if g.Rec {
				c.Count("addLink_recurrent", 1)
			}
		case "connectSensors":
			if !t.OK {
				if len(newGenes) > 0 || len(newNodes) > 0 {
					fail("failed-mutation-added-structure", "connect-sensors reported failure but added structure")
				}
				return
			}
			c.Count("connectSensors_success_"+t.Regime, 1)
			if _, ok := oldKept(false); !ok || !restEqual() {
				return
			}
			if len(newNodes) != 0 || len(newGenes) == 0 {
				fail("new-genes", "connect-sensors succeeded but added no gene or added a node")
				return
			}
			s := newGenes[0].In
			if !isSensorRole(roles[s]) {
				fail("source-not-sensor", fmt.Sprintf("new genes leave node %d which is not a sensor", s))
				return
			}
			for _, o := range b.Genes {
				if o.In == s {
					fail("sensor-was-connected", fmt.Sprintf("sensor %d already had gene #%d before", s, o.Innov))
					return
				}
			}
			targets := map[int]int{}
			for _, g := range newGenes {
				if g.In != s {
					fail("several-sensors", fmt.Sprintf("new genes leave two different nodes (%d and %d)", s, g.In))
					return
				}
				targets[g.Out]++
			}
			for id, r := range roles {
				if isSensorRole(r) {
					if targets[id] > 0 {
						fail("sensor-target", fmt.Sprintf("new gene ends in sensor %d", id))
						return
					}
					continue
				}
				if targets[id] != 1 {
					fail("not-one-per-neuron", fmt.Sprintf("sensor %d got %d new genes to non-sensor node %d; exactly one to every non-sensor node expected", s, targets[id], id))
					return
				}
			}
		case "linkWeights", "randomTrait", "linkTrait", "nodeTrait", "toggleEnable", "reEnable":
			if structureKey(a) != structureKey(b) {
				fail("structure-changed", fmt.Sprintf("%s changed the node set, gene endpoints or innovation numbers: %s", t.Op, diffKeys(structureKey(b), structureKey(a))))
				return
			}
			if t.Op == "toggleEnable" {
				had, has := map[int]bool{}, map[int]bool{}
				for _, g := range b.Genes {
					if g.En {
						had[g.In] = true
					}
				}
				for _, g := range a.Genes {
					if g.En {
						has[g.In] = true
					}
				}
				for id := range had {
					if !has[id] {
						fail("last-enabled-gene-disabled", fmt.Sprintf("node %d had an enabled outgoing gene before toggle-enable and has none after", id))
						return
					}
				}
				for i := range b.Genes {
					if b.Genes[i].En && !a.Genes[i].En {
						c.Count("toggle_disabled_a_gene", 1)
					}
				}
			}
			if t.Op == "reEnable" {
				first := -1
				for i, g := range b.Genes {
					if !g.En {
						first = i
						break
					}
				}
				for i := range b.Genes {
					want := b.Genes[i]
					if i == first {
						want.En = true
					}
					if !geneBitEqual(want, a.Genes[i]) {
						fail("not-first-disabled-gene", fmt.Sprintf("re-enable must enable only the first disabled gene (index %d); gene #%d went %+v -> %+v", first, b.Genes[i].Innov, b.Genes[i], a.Genes[i]))
						return
					}
				}
				if first >= 0 {
					c.Count("reEnable_enabled_a_gene", 1)
				}
			}
		}
	}
}

func runC05(c *Ctx) {
	runGenomeSpaces(c, "C05", c05Oracle(c))
	c.Rule = "E2 explicit-state search (see C01: six families of start genomes, 13 operators, breadth-first to the stated depth, operator deviation bounds, canonical structural key); on EVERY mutator transition the before/after relation of C05 is evaluated on pointer-free snapshots, structural mutators under two innovation-record regimes (shared record of the search: matched when the innovation was discovered before; empty record: novel). states = distinct structural keys, transitions = operator applications on the real code"
	c.Assume("operator deviation bound and depth are bounds; add-link uses NewLinkTries=3 and RecurOnlyProb=0.5 so that both link kinds are produced")
	c.Assume("Go toolchain, go build -overlay, the instrumenter and the accessor file are trusted")
}
