package main

// C02 — an epoch conserves population size and keeps species a partition.
//
// E1: every execution within d deviations of 7 base policies of multi-epoch runs
// (6-8 epochs) over the configuration menu x fitness landscapes x start genomes x
// three sequential executor drivings (whole NextEpoch, phase by phase, species by
// species) and the parallel executor under its default schedule.

func init() {
	register("C02", "model_checking", runC02, replayEpochs("C02", oPop|oWellFormed))
}

func planC02(c *Ctx) epochPlan {
	seeds := []string{"xor", "evolved", "disc", "rand", "randrec", "hb3", "read", "hb4"}
	if !c.Quick() {
		seeds = append(seeds, "hb1", "hb5", "hbd1", "hbd2")
	}
	modes := []string{"whole", "phase", "perspecies", "par", "whole", "parrev"}
	fits := []int{0, 1, 2, 3, 4, 5, 6}
	pl := epochPlan{prop: "C02", oracles: oPop}
	if c.Quick() {
		pl.scenarios = buildScenarios(quickCfgRows, allPolicies, seeds, modes, fits, false)
		pl.maxDev = 1
	} else {
		pl.scenarios = buildScenarios(len(cfgRows), allPolicies, seeds, modes, fits, true)
		pl.maxDev = 1
		pl.deepScenarios = deepScenarios(seeds, modes, fits)
		pl.deepDev = 2
		pl.shards = 16
	}
	// dedicated scenarios of the known finding (single-point crossover kept on a random population)
	pl.scenarios = append(pl.scenarios,
		EpochScenario{Seed: "randsp", Cfg: 3, Fit: 6, Policy: "R2", Mode: "perspecies", Epochs: 8},
		EpochScenario{Seed: "randsp", Cfg: 0, Fit: 6, Policy: "A", Mode: "whole", Epochs: 6})
	// four sizeable, old, improving species and ten babies to steal: the stolen pool is handed to the
	// three best species in blocks and what is left goes to the species ranked fourth and lower
	for _, pol := range []string{"M", "A", "R1"} {
		for fi, mode := range []string{"whole", "phase"} {
			pl.scenarios = append(pl.scenarios, EpochScenario{Seed: "hb6", Cfg: 10, Fit: 2 + 3*fi, Policy: pol, Mode: mode, Epochs: 3})
		}
	}
	// twenty species turned over by the parallel executor (base executions of every policy only)
	for i, pol := range allPolicies {
		pl.baseScenarios = append(pl.baseScenarios, EpochScenario{Seed: "hbm", Cfg: []int{0, 7, 5}[i%3], Fit: []int{2, 5, 6, 4}[i%4], Policy: pol, Mode: []string{"par", "parrev"}[i%2], Epochs: 2})
	}
	return pl
}

func runC02(c *Ctx) {
	shareExecutors() // one executor value per kind for every run of the process (populations of different sizes and options)
	pl := planC02(c)
	runEpochPlan(c, pl)
	finishEpochEvidence(c, "E1 choice-tree exploration of multi-epoch runs on the real Population/Species/executor code: for every scenario (start genome x configuration row x fitness landscape x executor driving x base policy) ALL executions within max_deviations answers of the base policy are run (every random draw is a choice point with a small menu); after construction and after every epoch the C02 predicate is evaluated (no error, exactly PopSize organisms, none from the previous generation, species a partition with agreeing back pointers, no empty species, unique never-reused species ids, unique genome ids, ages +1 / founded at 1 with the first-turnover exception). states = distinct end-state hashes of whole runs, transitions = populations produced (constructions + epochs)")
}
