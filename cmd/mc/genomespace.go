package main

import (
	"encoding/json"
	"fmt"
	"sort"
	"strings"
	"time"

	"github.com/yaricom/goNEAT/v4/neat"
	"github.com/yaricom/goNEAT/v4/neat/genetics"
	"github.com/yaricom/goNEAT/v4/neat/network"
)

// E2 — explicit-state search over genomes ("GenomeSpace").
//
// State: one genome (pointer-free GenomeSpec). Transitions: every genetic
// operator applied through the accessors to a fresh rebuild of the state under
// every choice sequence within the operator bound. All transitions share one
// innovation observer, so the whole search behaves like one long generation of
// the sequential executor: identical structural innovations get identical numbers
// on every branch, which makes any two discovered genomes legitimate parents.
// States are deduplicated by the canonical structural key; per-transition oracles
// run on the concrete representative before deduplication.

// searchObserver is the InnovationsObserver / NodeIdGenerator of the search.
type searchObserver struct {
	inns      []genetics.Innovation
	nextInnov int64
	nextNode  int
}

func (o *searchObserver) StoreInnovation(i genetics.Innovation) { o.inns = append(o.inns, i) }
func (o *searchObserver) Innovations() []genetics.Innovation    { return o.inns }
func (o *searchObserver) NextInnovationNumber() int64           { o.nextInnov++; return o.nextInnov }
func (o *searchObserver) NextNodeId() int                       { o.nextNode++; return o.nextNode }

func (o *searchObserver) fresh() *searchObserver {
	return &searchObserver{nextInnov: o.nextInnov + 1000, nextNode: o.nextNode + 1000}
}

type innovRec struct {
	Node  bool    `json:"node"`
	In    int     `json:"in"`
	Out   int     `json:"out"`
	N1    int64   `json:"n1"`
	N2    int64   `json:"n2,omitempty"`
	NewID int     `json:"new_node,omitempty"`
	Old   int64   `json:"old,omitempty"`
	W     float64 `json:"w,omitempty"`
	Trait int     `json:"trait,omitempty"`
	Rec   bool    `json:"rec,omitempty"`
}

func (o *searchObserver) dump() (recs []innovRec) {
	for _, in := range o.inns {
		r := innovRec{Node: in.VIsNode(), In: in.InNodeId, Out: in.OutNodeId, N1: in.InnovationNum}
		if r.Node {
			r.N2, r.NewID, r.Old = in.InnovationNum2, in.NewNodeId, in.OldInnovNum
		} else {
			r.W, r.Trait, r.Rec = in.NewWeight, in.NewTraitNum, in.IsRecurrent
		}
		recs = append(recs, r)
	}
	return
}

func observerFrom(recs []innovRec, nextInnov int64, nextNode int) *searchObserver {
	o := &searchObserver{nextInnov: nextInnov, nextNode: nextNode}
	for _, r := range recs {
		if r.Node {
			o.inns = append(o.inns, *genetics.NewInnovationForNode(r.In, r.Out, r.N1, r.N2, r.NewID, r.Old))
		} else {
			o.inns = append(o.inns, *genetics.NewInnovationForRecurrentLink(r.In, r.Out, r.N1, r.W, r.Trait, r.Rec))
		}
	}
	return o
}

// ---------------------------------------------------------------------------
// operators

type gsOp struct {
	Name   string
	Binary bool
	Struct bool // consults the innovation record
}

var gsOps = []gsOp{
	{"toggleEnable", false, false},
	{"reEnable", false, false},
	{"nodeTrait", false, false},
	{"linkTrait", false, false},
	{"randomTrait", false, false},
	{"linkWeights", false, false},
	{"duplicate", false, false},
	{"addNode", false, true},
	{"addLink", false, true},
	{"connectSensors", false, true},
	{"mateMultipoint", true, false},
	{"mateMultipointAvg", true, false},
	{"mateSinglePoint", true, false},
}

func gsOptions() *neat.Options {
	o := baseOptions()
	o.RecurOnlyProb = 0.5
	o.NewLinkTries = 3
	o.TraitParamMutProb = 0.5
	return o
}

// applyOp runs one operator; unary mutators work in place and return g.
func applyOp(op string, g, partner *genetics.Genome, obs *searchObserver, opts *neat.Options, fitOrder int) (res *genetics.Genome, ok bool, err error) {
	f1, f2 := 1.0, 1.0
	switch fitOrder {
	case 0:
		f1 = 0.5
	case 2:
		f2 = 0.5
	}
	switch op {
	case "toggleEnable":
		ok, err = g.VMutateToggleEnable(1)
		return g, ok, err
	case "reEnable":
		ok, err = g.VMutateGeneReEnable()
		return g, ok, err
	case "nodeTrait":
		ok, err = g.VMutateNodeTrait(1)
		return g, ok, err
	case "linkTrait":
		ok, err = g.VMutateLinkTrait(1)
		return g, ok, err
	case "randomTrait":
		ok, err = g.VMutateRandomTrait(opts)
		return g, ok, err
	case "linkWeights":
		ok, err = g.VMutateLinkWeights(opts.WeightMutPower, 1.0, false)
		return g, ok, err
	case "duplicate":
		res, err = g.VDuplicate(g.Id + 1)
		return res, err == nil, err
	case "addNode":
		ok, err = g.VMutateAddNode(obs, obs, opts)
		return g, ok, err
	case "addLink":
		ok, err = g.VMutateAddLink(obs, 1, opts)
		return g, ok, err
	case "connectSensors":
		ok, err = g.VMutateConnectSensors(obs, opts)
		return g, ok, err
	case "mateMultipoint":
		res, err = g.VMateMultipoint(partner, 77, f1, f2)
		return res, err == nil, err
	case "mateMultipointAvg":
		res, err = g.VMateMultipointAvg(partner, 77, f1, f2)
		return res, err == nil, err
	case "mateSinglePoint":
		res, err = g.VMateSinglePoint(partner, 77)
		return res, err == nil, err
	}
	panic("unknown operator " + op)
}

// ---------------------------------------------------------------------------
// the search

type gsState struct {
	Spec  *GenomeSpec
	Depth int
	Via   string // operator that first produced it
}

// gsTransition is what the per-transition oracles see.
type gsTransition struct {
	Op         string
	FitOrder   int
	Before     *GenomeSpec
	Partner    *GenomeSpec
	PBefore    *GenomeSpec // partner snapshot before the call
	After      *GenomeSpec // the operated genome after the call (mutators: same object)
	OrigPost   *GenomeSpec // duplicate/mate: the first parent after the call
	PartPost   *GenomeSpec // mate: the partner after the call
	Result     *genetics.Genome
	OK         bool
	Err        error
	Regime     string // "shared" (global record) or "fresh" (empty record)
	G          *genetics.Genome
	x          *Exec
	obsDump    func() ([]innovRec, int64, int)
	caseParams *c04Case
	chain      *chainInfo // set when the transition is a step of a live chain (replayed as a whole)
}

// chainInfo identifies a live chain: the start genome, the operators applied so far to ONE live
// object (no rebuild in between) and the innovation record at the start of the chain.
type chainInfo struct {
	Start  *GenomeSpec
	Ops    []string
	Regime string
	Recs   []innovRec
	NextI  int64
	NextN  int
}

type gsConfig struct {
	Seeds      []*GenomeSpec
	SeedNames  []string
	MaxDepth   int
	OpDev      int      // deviation bound for unary operators
	MateDev    int      // deviation bound for crossovers
	ParamDev   int      // deviation bound for weight/trait mutators
	MateDepth  int      // states up to this depth are used as first parent
	BudgetS    int      // wall budget of one family search (a cap, reported; 0 = none)
	Policies   []string // base policies for operator trees
	MatePol    []string
	MaxStates  int
	WithMating bool
	Oracle     func(t *gsTransition) // per-transition oracle (reports through Ctx)
	Prop       string
}

type GenomeSpace struct {
	c         *Ctx
	cfg       gsConfig
	obs       *searchObserver
	opts      *neat.Options
	states    map[string]*gsState
	order     []*gsState
	cnt       map[string]int64
	depthDone int
	start     time.Time
	trans0    int64
}

func newGenomeSpace(c *Ctx, cfg gsConfig) *GenomeSpace {
	gs := &GenomeSpace{c: c, cfg: cfg, opts: gsOptions(), states: map[string]*gsState{}, cnt: map[string]int64{}, start: time.Now(), trans0: c.Transitions}
	maxI, maxN := int64(0), 0
	for _, s := range cfg.Seeds {
		for _, g := range s.Genes {
			if g.Innov > maxI {
				maxI = g.Innov
			}
		}
		for _, n := range s.Nodes {
			if n.ID > maxN {
				maxN = n.ID
			}
		}
	}
	gs.obs = &searchObserver{nextInnov: maxI + 10, nextNode: maxN + 10}
	return gs
}

func (gs *GenomeSpace) add(spec *GenomeSpec, depth int, via string) bool {
	k := spec.StructKey()
	if _, ok := gs.states[k]; ok {
		return false
	}
	st := &gsState{Spec: spec, Depth: depth, Via: via}
	gs.states[k] = st
	gs.order = append(gs.order, st)
	gs.c.Distinct(hashString(k))
	return true
}

// runTransitions enumerates every execution of op on st (with partner) within the bound.
func (gs *GenomeSpace) runTransitions(st *gsState, op gsOp, partner *gsState, fitOrder int, next *[]*gsState) {
	pols := gs.cfg.Policies
	dev := gs.cfg.OpDev
	if op.Binary {
		pols = gs.cfg.MatePol
		dev = gs.cfg.MateDev
	} else if !op.Struct && op.Name != "toggleEnable" && dev > gs.cfg.ParamDev {
		// parametric mutators (many draws, no structural effect): smaller ball
		dev = gs.cfg.ParamDev
	}
	regimes := []string{"shared"}
	if op.Struct {
		regimes = []string{"shared", "fresh"}
	}
	if (op.Name == "addLink" || op.Name == "connectSensors") && len(st.Spec.Traits) > 0 && len(st.Spec.Modules) == 0 {
		// a record that already knows every link the genome lacks, under numbers that fall before,
		// between and after the genome's own genes
		regimes = append(regimes, "old")
	}
	seenExec := map[uint64]bool{}
	for _, regime := range regimes {
		for _, pn := range pols {
			ex := &Explorer{Policy: parsePolicy(pn), MaxDev: dev, Horizon: 300, Stop: gs.c.Expired}
			ex.Body = func(x *Exec) {
				spec := st.Spec
				var oldObs *searchObserver
				if regime == "old" {
					spec, oldObs = oldRecordCase(st.Spec, gs.obs.nextNode+2000)
				}
				g := spec.Build()
				var pg *genetics.Genome
				t := &gsTransition{Op: op.Name, FitOrder: fitOrder, Before: spec, Regime: regime, x: x}
				if partner != nil {
					pg = partner.Spec.Build()
					t.Partner = partner.Spec
					t.PBefore = partner.Spec
				}
				obs := gs.obs
				if regime == "fresh" {
					obs = gs.obs.fresh()
				}
				if oldObs != nil {
					obs = oldObs
				}
				before := obs.dump
				_ = before
				startInn, startNextI, startNextN := len(obs.inns), obs.nextInnov, obs.nextNode
				t.obsDump = func() ([]innovRec, int64, int) {
					d := obs.dump()
					if len(d) > startInn {
						d = d[:startInn]
					}
					return d, startNextI, startNextN
				}
				res, ok, err := applyOp(op.Name, g, pg, obs, gs.opts, fitOrder)
				t.G, t.Result, t.OK, t.Err = g, res, ok, err
				t.After = SpecOf(g)
				if res != nil && res != g {
					t.OrigPost = t.After
					t.After = SpecOf(res)
				}
				if pg != nil {
					t.PartPost = SpecOf(pg)
				}
				gs.c.Transitions++
				gs.cnt["transitions_"+op.Name]++
				if ok {
					gs.cnt["successful_"+op.Name]++
				}
				if gs.cfg.Oracle != nil {
					gs.cfg.Oracle(t)
				}
				if regime == "shared" && err == nil && res != nil && len(res.Genes) > 0 {
					sp := t.After
					if op.Name == "duplicate" {
						return // a duplicate is the same state by construction of the key (checked by the oracle)
					}
					x.EndHash = hashString(sp.StructKey())
					if !seenExec[x.EndHash] {
						seenExec[x.EndHash] = true
						if gs.add(sp, st.Depth+1, op.Name) {
							*next = append(*next, gs.order[len(gs.order)-1])
						}
					}
				}
			}
			ex.OnPanic = func(x *Exec, r interface{}, stack string) {
				t := &gsTransition{Op: op.Name, FitOrder: fitOrder, Before: st.Spec, Regime: regime, x: x}
				if partner != nil {
					t.Partner = partner.Spec
				}
				t.obsDump = func() ([]innovRec, int64, int) { return gs.obs.dump(), gs.obs.nextInnov, gs.obs.nextNode }
				gs.violate(t, "panic", fmt.Sprintf("operator %s panicked: %v", op.Name, r))
			}
			ex.Run()
			gs.c.Evaluations += ex.Executions
			gs.c.Traces += ex.Executions
			gs.cnt["horizon_aborts"] += ex.HorizonAborts
			if ex.Stopped {
				return
			}
		}
	}
}

// oldRecordCase renumbers the genes of s to 100, 200, ... (order kept) and builds a record that holds a
// link innovation for every ordered node pair (non-sensor target, both recurrence flags) the genome
// does not join, numbered so that the numbers fall into every gap of the gene list in turn
// (before the first gene, between two genes, after the last).
func oldRecordCase(s *GenomeSpec, nextNode int) (*GenomeSpec, *searchObserver) {
	c := *s
	c.Genes = append([]GeneSpec(nil), s.Genes...)
	have := map[linkKey]bool{}
	for i := range c.Genes {
		c.Genes[i].Innov = int64(100 * (i + 1))
		have[linkKey{c.Genes[i].In, c.Genes[i].Out, c.Genes[i].Rec}] = true
	}
	n := len(c.Genes)
	obs := &searchObserver{nextInnov: int64(100*(n+1) + 1000), nextNode: nextNode}
	idx := 0
	for _, a := range c.Nodes {
		for _, b := range c.Nodes {
			if isSensorRole(b.Role) {
				continue
			}
			for _, rec := range []bool{false, true} {
				if have[linkKey{a.ID, b.ID, rec}] {
					continue
				}
				slot := idx % (n + 1)
				num := int64(100*slot + 1 + idx/(n+1))
				obs.inns = append(obs.inns, *genetics.NewInnovationForRecurrentLink(a.ID, b.ID, num, 0.5+float64(idx), 0, rec))
				idx++
			}
		}
	}
	return &c, obs
}

// violate reports a violation on transition t with a self-contained replay.
func (gs *GenomeSpace) violate(t *gsTransition, clause, msg string) {
	gsViolate(gs.c, gs.cfg.Prop, t, clause, msg)
}

func gsViolate(c *Ctx, prop string, t *gsTransition, clause, msg string) {
	if t.chain != nil {
		ch := t.chain
		js, _ := json.Marshal(ch.Start)
		rj, _ := json.Marshal(ch.Recs)
		params := map[string]interface{}{"ops": strings.Join(ch.Ops, ","), "regime": ch.Regime, "state": json.RawMessage(js),
			"record": json.RawMessage(rj), "next_innov": ch.NextI, "next_node": ch.NextN, "policy": t.x.policy.String()}
		trace := fmt.Sprintf("operators %s applied in sequence to ONE genome object starting from %s; before the last step: %s; after: %s",
			strings.Join(ch.Ops, " -> "), ch.Start.Short(), t.Before.Short(), t.After.Short())
		rp := &Replay{Scenario: "operator-chain", Params: params, Answers: t.x.Answers(), Clause: msg, Trace: trace}
		ord := int64(len(ch.Ops)*100000 + len(ch.Start.Genes)*1000 + len(t.x.Points))
		c.ViolateOrd(prop+"/"+t.Op+"/"+clause, ord, fmt.Sprintf("[%s as step %d of a sequence on one object, on %s] %s", t.Op, len(ch.Ops), t.Before.Short(), msg), rp)
		return
	}
	params := map[string]interface{}{"op": t.Op, "fit_order": t.FitOrder, "regime": t.Regime}
	js, _ := json.Marshal(t.Before)
	params["state"] = json.RawMessage(js)
	if t.Partner != nil {
		pj, _ := json.Marshal(t.Partner)
		params["partner"] = json.RawMessage(pj)
	}
	if t.obsDump != nil && (t.Regime == "shared" || t.Regime == "old") {
		recs, ni, nn := t.obsDump()
		rj, _ := json.Marshal(recs)
		params["record"] = json.RawMessage(rj)
		params["next_innov"] = ni
		params["next_node"] = nn
	} else if t.obsDump != nil {
		_, ni, nn := t.obsDump()
		params["next_innov"] = ni
		params["next_node"] = nn
	}
	var ans []int
	pol := ""
	if t.x != nil {
		ans = t.x.Answers()
		pol = t.x.policy.String()
	}
	params["policy"] = pol
	trace := fmt.Sprintf("operator %s on %s", t.Op, t.Before.Short())
	if t.Partner != nil {
		trace += " with " + t.Partner.Short()
	}
	if t.After != nil {
		trace += " => " + t.After.Short()
	}
	rp := &Replay{Scenario: "operator", Params: params, Answers: ans, Clause: msg, Trace: trace}
	ord := int64(len(t.Before.Genes)*1000 + len(t.Before.Nodes)*50 + len(ans))
	if t.Partner != nil {
		ord += int64(len(t.Partner.Genes) * 1000)
	}
	c.ViolateOrd(prop+"/"+t.Op+"/"+clause, ord, fmt.Sprintf("[%s on %s] %s", t.Op, t.Before.Short(), msg), rp)
}

// Search runs the breadth-first closure to MaxDepth.
func (gs *GenomeSpace) Search() {
	frontier := []*gsState{}
	for i, s := range gs.cfg.Seeds {
		if gs.add(s, 0, "seed:"+gs.cfg.SeedNames[i]) {
			frontier = append(frontier, gs.order[len(gs.order)-1])
		}
	}
	for depth := 0; depth < gs.cfg.MaxDepth && len(frontier) > 0; depth++ {
		var next []*gsState
		for fi, st := range frontier {
			if gs.c.Expired() || (gs.cfg.MaxStates > 0 && len(gs.order) >= gs.cfg.MaxStates) ||
				(gs.cfg.BudgetS > 0 && time.Since(gs.start) > time.Duration(gs.cfg.BudgetS)*time.Second) {
				gs.c.MarkCapped(fmt.Sprintf("genome space %s: search capped (time or state cap) while expanding depth %d (%d of %d frontier states expanded); every state up to depth %d was fully expanded", strings.Join(gs.cfg.SeedNames, "+"), depth, fi, len(frontier), gs.depthDone-1))
				gs.finish(len(frontier) - fi)
				return
			}
			for _, op := range gsOps {
				if !op.Binary {
					gs.runTransitions(st, op, nil, 1, &next)
					continue
				}
				if !gs.cfg.WithMating || st.Depth > gs.cfg.MateDepth {
					continue
				}
				for _, p := range gs.partnersFor(st) {
					orders := []int{0, 1, 2}
					if op.Name == "mateSinglePoint" {
						orders = []int{1}
					}
					for _, fo := range orders {
						gs.runTransitions(st, op, p, fo, &next)
					}
				}
			}
		}
		gs.depthDone = depth + 1
		frontier = next
	}
	gs.finish(0)
}

// partnersFor: every state of depth <= 1 plus the 4 most recently discovered ones
// (same trait count is guaranteed: all seeds of one search share it).
func (gs *GenomeSpace) partnersFor(st *gsState) []*gsState {
	var ps []*gsState
	seen := map[*gsState]bool{}
	for _, s := range gs.order {
		if s.Depth <= 1 && len(s.Spec.Traits) == len(st.Spec.Traits) {
			ps = append(ps, s)
			seen[s] = true
		}
		if len(ps) >= 12 {
			break
		}
	}
	for i := len(gs.order) - 1; i >= 0 && i >= len(gs.order)-4; i-- {
		s := gs.order[i]
		if !seen[s] && len(s.Spec.Traits) == len(st.Spec.Traits) {
			ps = append(ps, s)
		}
	}
	return ps
}

func (gs *GenomeSpace) finish(unexpanded int) {
	gs.c.States += int64(len(gs.order))
	fam := map[string]interface{}{}
	fam["depth_fully_expanded"] = gs.depthDone
	fam["frontier_states_not_expanded"] = unexpanded
	fam["innovations_recorded_in_search"] = len(gs.obs.inns)
	fam["wall_s"] = time.Since(gs.start).Seconds()
	fam["transitions"] = gs.c.Transitions - gs.trans0
	byDepth := map[int]int{}
	maxNodes, maxGenes := 0, 0
	for _, s := range gs.order {
		byDepth[s.Depth]++
		if len(s.Spec.Nodes) > maxNodes {
			maxNodes = len(s.Spec.Nodes)
		}
		if len(s.Spec.Genes) > maxGenes {
			maxGenes = len(s.Spec.Genes)
		}
	}
	ds := []int{}
	for d := range byDepth {
		ds = append(ds, d)
	}
	sort.Ints(ds)
	var sd []string
	for _, d := range ds {
		sd = append(sd, fmt.Sprintf("depth %d: %d", d, byDepth[d]))
	}
	fam["states_by_depth"] = sd
	fam["largest_genome"] = fmt.Sprintf("%d nodes, %d genes", maxNodes, maxGenes)
	gs.c.Extra["genome_space_"+strings.Join(gs.cfg.SeedNames, "+")] = fam
	for k, v := range gs.cnt {
		gs.c.Count(k, v)
	}
	for i, s := range gs.order {
		if i%(len(gs.order)/4+1) == 0 {
			gs.c.Sample(map[string]interface{}{"state": s.Spec.Short(), "depth": s.Depth, "first_reached_by": s.Via})
		}
	}
}

// ---------------------------------------------------------------------------
// live chains: operator sequences on ONE live object
//
// The breadth-first search rebuilds a state from its pointer-free snapshot before every operator, so
// anything an operator leaves behind inside the object (the id index, cached phenotype, scratch
// state) is lost between two steps. The chains close that gap: every sequence of up to L unary
// operators is applied to one live genome object - "duplicate" switches to the copy - under every
// choice sequence within the bound over the WHOLE chain, and the per-transition oracle runs on every
// step with the snapshot taken just before it.

var chainOps = []string{"addNode", "reEnable", "toggleEnable", "addLink", "connectSensors", "duplicate", "linkWeights", "nodeTrait", "linkTrait", "randomTrait"}

func runChain(start *GenomeSpec, ops []string, regime string, obs *searchObserver, opts *neat.Options, x *Exec, oracle func(t *gsTransition), cnt map[string]int64) {
	ch := &chainInfo{Start: start, Regime: regime, Recs: obs.dump(), NextI: obs.nextInnov, NextN: obs.nextNode}
	g := start.Build()
	for i, op := range ops {
		before := SpecOf(g)
		if op == "addLink" {
			// add-link works on the cached phenotype and the library only ever calls it on a genome whose
			// phenotype is absent or current (a fresh duplicate / crossover child); a chain must not
			// hand it a phenotype that an earlier step of the chain made stale
			g.Phenotype = nil
		}
		res, ok, err := applyOp(op, g, nil, obs, opts, 1)
		st := *ch
		st.Ops = ops[:i+1]
		t := &gsTransition{Op: op, FitOrder: 1, Before: before, Regime: regime, x: x, G: g, Result: res, OK: ok, Err: err, chain: &st}
		t.After = SpecOf(g)
		if res != nil && res != g {
			t.OrigPost = t.After
			t.After = SpecOf(res)
		}
		if cnt != nil {
			cnt["chain_steps"]++
			if ok && i > 0 {
				cnt["chain_successful_later_steps"]++
			}
		}
		if oracle != nil {
			oracle(t)
		}
		if err != nil || res == nil {
			return
		}
		g = res
	}
}

// LiveChains enumerates all operator sequences of length 2..L on the start genomes of the family.
func (gs *GenomeSpace) LiveChains(L, dev int, policies []string) {
	var seqs [][]string
	var rec func(cur []string)
	rec = func(cur []string) {
		if len(cur) >= 2 {
			seqs = append(seqs, append([]string(nil), cur...))
		}
		if len(cur) == L {
			return
		}
		for _, op := range chainOps {
			rec(append(cur, op))
		}
	}
	rec(nil)
	var chains, execs int64
	cnt := map[string]int64{}
	defer func() {
		gs.c.Count("live_chains", chains)
		gs.c.Count("live_chain_executions", execs)
		for k, v := range cnt {
			gs.c.Count(k, v)
		}
	}()
	for _, start := range gs.cfg.Seeds {
		for _, ops := range seqs {
			for _, regime := range []string{"shared", "fresh"} {
				for _, pn := range policies {
					if gs.c.Expired() {
						gs.c.MarkCapped("live chains: internal deadline reached before every operator sequence was explored")
						return
					}
					ex := &Explorer{Policy: parsePolicy(pn), MaxDev: dev, Horizon: 2000, Stop: gs.c.Expired}
					ops, regime := ops, regime
					mark := len(gs.obs.inns)
					markI, markN := gs.obs.nextInnov, gs.obs.nextNode
					ex.Body = func(x *Exec) {
						// every execution of the chain starts from the same record
						gs.obs.inns = gs.obs.inns[:mark]
						gs.obs.nextInnov, gs.obs.nextNode = markI, markN
						obs := gs.obs
						if regime == "fresh" {
							obs = gs.obs.fresh()
						}
						runChain(start, ops, regime, obs, gs.opts, x, gs.cfg.Oracle, cnt)
						gs.c.Transitions += int64(len(ops))
					}
					ex.OnPanic = func(x *Exec, r interface{}, stack string) {
						st := &chainInfo{Start: start, Ops: ops, Regime: regime, Recs: gs.obs.dump()[:mark], NextI: markI, NextN: markN}
						if regime == "fresh" {
							st.Recs, st.NextI, st.NextN = nil, markI+1000, markN+1000
						}
						t := &gsTransition{Op: ops[len(ops)-1], Before: start, After: start, Regime: regime, x: x, chain: st}
						gs.violate(t, "panic", fmt.Sprintf("operator sequence %v on one object panicked: %v", ops, r))
					}
					ex.Run()
					gs.obs.inns = gs.obs.inns[:mark]
					gs.obs.nextInnov, gs.obs.nextNode = markI, markN
					chains++
					execs += ex.Executions
					gs.c.Evaluations += ex.Executions
					gs.c.Traces += ex.Executions
				}
			}
		}
	}
}

// replayChain re-executes a recorded live chain and applies the oracle to every step.
func replayChain(c *Ctx, rp *Replay, orc func(t *gsTransition)) (bool, string) {
	var st GenomeSpec
	raw := func(k string) []byte { b, _ := json.Marshal(rp.Params[k]); return b }
	if err := json.Unmarshal(raw("state"), &st); err != nil {
		return false, "cannot parse state: " + err.Error()
	}
	var recs []innovRec
	_ = json.Unmarshal(raw("record"), &recs)
	ops := strings.Split(paramStr(rp, "ops"), ",")
	regime := paramStr(rp, "regime")
	ex := &Explorer{Policy: parsePolicy(paramStr(rp, "policy")), Horizon: 5000}
	var pan interface{}
	ex.Body = func(x *Exec) {
		// (for the "fresh" regime the recorded record is empty and the counters are the fresh observer's)
		obs := observerFrom(recs, int64(paramInt(rp, "next_innov")), paramInt(rp, "next_node"))
		runChain(&st, ops, regime, obs, gsOptions(), x, orc, nil)
	}
	ex.OnPanic = func(x *Exec, r interface{}, stack string) { pan = r }
	ex.RunOne(rp.Answers)
	if pan != nil {
		return true, fmt.Sprintf("panic: %v", pan)
	}
	if c.ViolationCount() > 0 {
		return true, c.violations[0].Msg
	}
	return false, fmt.Sprintf("operators %v on one object starting from %s", ops, st.Short())
}

// replayOperator re-executes one recorded operator transition and applies the oracle.
func replayOperator(prop string, oracle func(c *Ctx) func(t *gsTransition)) func(c *Ctx, rp *Replay) (bool, string) {
	return func(c *Ctx, rp *Replay) (bool, string) {
		if rp.Scenario == "operator-chain" {
			return replayChain(c, rp, oracle(c))
		}
		var st, pt GenomeSpec
		raw := func(k string) []byte { b, _ := json.Marshal(rp.Params[k]); return b }
		if err := json.Unmarshal(raw("state"), &st); err != nil {
			return false, "cannot parse state: " + err.Error()
		}
		var partner *GenomeSpec
		if _, ok := rp.Params["partner"]; ok {
			_ = json.Unmarshal(raw("partner"), &pt)
			partner = &pt
		}
		var recs []innovRec
		if _, ok := rp.Params["record"]; ok {
			_ = json.Unmarshal(raw("record"), &recs)
		}
		obs := observerFrom(recs, int64(paramInt(rp, "next_innov")), paramInt(rp, "next_node"))
		op := paramStr(rp, "op")
		fo := paramInt(rp, "fit_order")
		ex := &Explorer{Policy: parsePolicy(paramStr(rp, "policy")), Horizon: 2000}
		if ex.Policy.Name == "" {
			ex.Policy = Policy{Name: "Z"}
		}
		var pan interface{}
		orc := oracle(c)
		ex.Body = func(x *Exec) {
			g := st.Build()
			var pg *genetics.Genome
			t := &gsTransition{Op: op, FitOrder: fo, Before: &st, Regime: paramStr(rp, "regime"), x: x}
			if partner != nil {
				pg = partner.Build()
				t.Partner, t.PBefore = partner, partner
			}
			res, ok, err := applyOp(op, g, pg, obs, gsOptions(), fo)
			t.G, t.Result, t.OK, t.Err = g, res, ok, err
			t.After = SpecOf(g)
			if res != nil && res != g {
				t.OrigPost = t.After
				t.After = SpecOf(res)
			}
			if pg != nil {
				t.PartPost = SpecOf(pg)
			}
			orc(t)
		}
		ex.OnPanic = func(x *Exec, r interface{}, stack string) { pan = r }
		ex.RunOne(rp.Answers)
		if pan != nil {
			return true, fmt.Sprintf("panic: %v", pan)
		}
		if c.ViolationCount() > 0 {
			return true, c.violations[0].Msg
		}
		return false, "operator " + op + " on " + st.Short()
	}
}

// ioNodeSet is used by the C01 oracle.
func nodeRoles(s *GenomeSpec) map[int]network.NodeNeuronType {
	m := map[int]network.NodeNeuronType{}
	for _, n := range s.Nodes {
		m[n.ID] = n.Role
	}
	return m
}
