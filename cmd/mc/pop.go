package main

import (
	"context"
	"encoding/json"
	"fmt"
	"math"
	"sort"
	"strings"

	"github.com/yaricom/goNEAT/v4/neat"
	"github.com/yaricom/goNEAT/v4/neat/genetics"
	"github.com/yaricom/goNEAT/v4/neat/network"
	"github.com/yaricom/goNEAT/v4/neat/vsched"
)

// ---------------------------------------------------------------------------
// Epoch-level harness shared by C01 C02 C03 C09 C10 C16 C17: a scenario is a
// start genome, a configuration row, a fitness landscape, an executor mode and a
// number of epochs; its executions are enumerated by the E1 explorer.

type CfgRow struct {
	Pop     int
	Thr     float64
	Surv    float64
	Drop    int
	Stolen  int
	AgeSig  float64
	Profile int
	Fast    bool
}

// The configuration menu (DESIGN section 3, CFG). Rows 0..11 are the quick set;
// thorough adds the rest.
var cfgRows = []CfgRow{
	{6, 3, 0.2, 15, 0, 1, 0, false},
	{4, 0.3, 0.5, 3, 0, 1.5, 1, true},
	{9, 3, 0.2, 1, 4, 1, 1, false},
	{7, 100, 1.0, 1, 2, 1.5, 2, true},
	{3, 0.3, 0.2, 15, 2, 1, 2, false},
	{6, 1, 0.5, 3, 0, 1, 3, true},
	{12, 3, 0.2, 1, 5, 1, 2, false},
	{9, 1, 0.5, 15, 0, 1.5, 1, false},
	{7, 0.3, 1.0, 3, 3, 1, 0, true},
	{4, 100, 0.2, 1, 0, 1, 3, false},
	{12, 1, 0.5, 3, 10, 1.5, 3, true},
	{6, 3, 1.0, 1, 3, 1.5, 1, true},
	// thorough-only rows
	{3, 100, 0.5, 1, 0, 1, 1, false},
	{3, 3, 1.0, 3, 1, 1.5, 3, true},
	{4, 1, 0.2, 15, 2, 1, 2, true},
	{4, 3, 1.0, 3, 2, 1.5, 0, false},
	{6, 0.3, 0.2, 3, 3, 1.5, 2, true},
	{6, 100, 0.5, 15, 2, 1, 0, false},
	{7, 1, 0.2, 15, 0, 1, 1, false},
	{7, 3, 0.5, 1, 3, 1, 3, true},
	{9, 0.3, 1.0, 15, 2, 1.5, 3, false},
	{9, 100, 0.5, 3, 4, 1, 0, true},
	{12, 0.3, 0.2, 15, 2, 1.5, 0, false},
	{12, 100, 1.0, 1, 6, 1, 1, true},
	{2, 3, 0.2, 1, 0, 1, 1, false},
	{1, 3, 0.2, 1, 0, 1, 0, false},
	{5, 1, 0.5, 1, 2, 1.5, 2, false},
	{8, 3, 0.2, 3, 8, 1, 1, true},
	// boundary values of the options
	{6, 3, 0.0, 15, 0, 1, 0, false}, // survival threshold 0: only the champion of a species breeds
	{6, 1, 0.2, 0, 0, 1, 1, false},  // drop-off age 0
	{6, 3, 0.2, 3, 20, 1, 2, true},  // more babies to steal than there are organisms
	{5, 1, 0.5, 3, 0, 0, 3, false},  // age significance 0: every young species' fitness is wiped out
}

const quickCfgRows = 12

func (r CfgRow) Options() *neat.Options {
	o := baseOptions()
	o.PopSize = r.Pop
	o.CompatThreshold = r.Thr
	o.SurvivalThresh = r.Surv
	o.DropOffAge = r.Drop
	o.BabiesStolen = r.Stolen
	o.AgeSignificance = r.AgeSig
	if r.Fast {
		o.GenCompatMethod = neat.GenomeCompatibilityMethodFast
	}
	// larger mutation-number differences so that thresholds 0.3/1/3 all split populations
	o.MutdiffCoeff = 1.0
	switch r.Profile {
	case 0: // XOR defaults
	case 1: // structural-heavy
		o.MutateOnlyProb = 0.5
		o.MutateAddNodeProb = 0.5
		o.MutateAddLinkProb = 0.5
		o.MutateConnectSensors = 0.5
		o.RecurOnlyProb = 0.2
		o.MutateToggleEnableProb = 0.2
		o.MutateGeneReenableProb = 0.2
		o.NewLinkTries = 5
	case 2: // mating-heavy
		o.MutateOnlyProb = 0.2
		o.InterspeciesMateRate = 0.5
		o.MateMultipointProb = 0.4
		o.MateMultipointAvgProb = 0.3
		o.MateSinglepointProb = 0.3
		o.MateOnlyProb = 0.5
		o.MutateAddNodeProb = 0.2
		o.MutateAddLinkProb = 0.2
		o.NewLinkTries = 5
	case 3: // toggle / re-enable / traits on
		o.MutateToggleEnableProb = 0.5
		o.MutateGeneReenableProb = 0.5
		o.MutateRandomTraitProb = 0.5
		o.MutateLinkTraitProb = 0.5
		o.MutateNodeTraitProb = 0.5
		o.MutateAddNodeProb = 0.2
		o.MutateAddLinkProb = 0.5
		o.NewLinkTries = 5
	}
	return o
}

// EpochScenario identifies one harness body; with the answer list it identifies one execution.
type EpochScenario struct {
	Seed   string `json:"seed"`   // xor | disc | evolved | rand | randrec
	Cfg    int    `json:"cfg"`    // row of cfgRows
	Fit    int    `json:"fit"`    // fitness landscape
	Policy string `json:"policy"` // base policy of the explorer
	Mode   string `json:"mode"`   // whole | phase | perspecies | par
	Epochs int    `json:"epochs"`
}

func (s EpochScenario) String() string {
	return fmt.Sprintf("seed=%s cfg=%d fit=%d policy=%s mode=%s epochs=%d", s.Seed, s.Cfg, s.Fit, s.Policy, s.Mode, s.Epochs)
}

func (s EpochScenario) params() map[string]interface{} {
	js, _ := json.Marshal(s)
	m := map[string]interface{}{}
	_ = json.Unmarshal(js, &m)
	return m
}

func scenarioFromParams(p map[string]interface{}) EpochScenario {
	js, _ := json.Marshal(p)
	var s EpochScenario
	_ = json.Unmarshal(js, &s)
	return s
}

func seedByName(name string) *GenomeSpec {
	switch name {
	case "xor":
		return xorSeed()
	case "disc":
		return disconnectedSeed()
	case "evolved":
		return evolvedSeed()
	case "modular":
		// a start genome with a module whose gene carries the number right after the last connection gene
		return modularSeed(true)
	case "modular3":
		// a module of which only one input node has a connection gene; the other two and the module's second
		// output are attached through the control gene only (a mated child gets them as "extra" nodes)
		g := xorSeed()
		act := xorSeed().Nodes[3].Act
		g.Nodes = append(g.Nodes, NodeSpec{5, network.HiddenNeuron, act, 2}, NodeSpec{6, network.HiddenNeuron, act, 0}, NodeSpec{7, network.HiddenNeuron, act, 1}, NodeSpec{8, network.HiddenNeuron, act, 0})
		g.Genes = append(g.Genes, GeneSpec{In: 2, Out: 5, W: 1.0 / 3, Innov: 4, Mut: 1.0 / 3, En: true, Trait: 2})
		g.Modules = []ModuleSpec{{Innov: 5, Mut: 5.5, En: true, NodeID: 9, Act: 21, Trait: 1, Inputs: []int{5, 8, 6, 7}, Outputs: []int{4}, InW: []float64{1, 1, 1, 1}, OutW: []float64{1}}}
		return g
	case "traits132":
		// trait ids that are not an ascending run (as in the library's own test genome), nodes on non-first traits
		g := evolvedSeed()
		g.Traits = []TraitSpec{{1, params8(0.1)}, {3, params8(0.9)}, {2, params8(1.5)}}
		for i := range g.Nodes {
			g.Nodes[i].Trait = []int{1, 3, 2, 0}[i%4]
		}
		for i := range g.Genes {
			g.Genes[i].Trait = []int{3, 2, 1}[i%3]
		}
		return g
	}
	return nil
}

const numLandscapes = 7

var landscapeNames = [numLandscapes]string{"zero", "const1", "index", "dominant", "pow2", "structure", "distinct"}

// fitnessOf is the landscape applied before each epoch (as a GenerationEvaluator would).
func fitnessOf(fit, gen, idx, n int, org *genetics.Organism) float64 {
	switch fit {
	case 0:
		return 0
	case 1:
		return 1
	case 2:
		return float64(idx + 1)
	case 3:
		if idx == 0 {
			return 1e6
		}
		return 1
	case 4:
		return math.Pow(2, float64(idx))
	case 5:
		return float64(org.Genotype.Extrons() + len(org.Genotype.Nodes))
	case 7:
		return float64(n - idx)
	case 9: // distinct negative values (the library clamps them to one small positive value: all tie after adjustment)
		if n <= 1 {
			return -1
		}
		return -float64((idx*(n-1)+gen)%n + 1)
	case 8: // distinct but very close values (a plateau): 1 + k*1e-5
		if n <= 1 {
			return 1
		}
		return 1 + 1e-5*float64((idx*(n-1)+gen)%n)
	case 6:
		if n <= 1 {
			return float64(gen + 1)
		}
		return float64((idx*(n-1)+gen)%n + 1)
	case 11: // mixed signs
		if idx%2 == 0 {
			return -float64(idx + 1)
		}
		return float64(idx + 1)
	case 12: // a tiny scale: distinct positive values around 1e-10 (a fitness measure in other units)
		return 1e-10 * float64(idx+1)
	case 10: // exact zeros and two tiny positive values (below the 1e-4 the library substitutes for negative fitness)
		switch (idx + gen) % 4 {
		case 1:
			return 5e-5
		case 3:
			return 2e-5
		}
		return 0
	}
	return 0
}

// ---------------------------------------------------------------------------
// oracles

type oracleSet uint32

const (
	oWellFormed oracleSet = 1 << iota // C01
	oPop                              // C02
	oLedger                           // C03
	oQuota                            // C09
	oChamp                            // C10
	oSpeciate                         // C08
)

type linkKey struct {
	In, Out int
	Rec     bool
}

// InnovationLedger follows innovation numbers and node ids over a whole history.
type InnovationLedger struct {
	innov   map[int64]linkKey
	node    map[int]network.NodeNeuronType
	hwInnov int64
	hwNode  int
}

func newLedger() *InnovationLedger {
	return &InnovationLedger{innov: map[int64]linkKey{}, node: map[int]network.NodeNeuronType{}}
}

// seedWith records every gene and node of the given genomes as "held before".
func (l *InnovationLedger) seedWith(gs []*genetics.Genome) string {
	for _, g := range gs {
		for _, n := range g.Nodes {
			if r, ok := l.node[n.Id]; ok && r != n.NeuronType {
				return fmt.Sprintf("node id %d denotes roles %s and %s in the initial population", n.Id, roleLetter(r), roleLetter(n.NeuronType))
			}
			l.node[n.Id] = n.NeuronType
			if n.Id > l.hwNode {
				l.hwNode = n.Id
			}
		}
		for _, gn := range g.Genes {
			k := linkKey{gn.Link.InNode.Id, gn.Link.OutNode.Id, gn.Link.IsRecurrent}
			if o, ok := l.innov[gn.InnovationNum]; ok && o != k {
				return fmt.Sprintf("innovation %d denotes %v and %v in the initial population", gn.InnovationNum, o, k)
			}
			l.innov[gn.InnovationNum] = k
			if gn.InnovationNum > l.hwInnov {
				l.hwInnov = gn.InnovationNum
			}
		}
		// module genes hold an innovation number and a node id too
		for _, cg := range g.ControlGenes {
			k := linkKey{-1, cg.ControlNode.Id, false}
			if o, ok := l.innov[cg.InnovationNum]; ok && o != k {
				return fmt.Sprintf("innovation %d denotes a module gene and %v in the initial population", cg.InnovationNum, o)
			}
			l.innov[cg.InnovationNum] = k
			if cg.InnovationNum > l.hwInnov {
				l.hwInnov = cg.InnovationNum
			}
			l.node[cg.ControlNode.Id] = cg.ControlNode.NeuronType
			if cg.ControlNode.Id > l.hwNode {
				l.hwNode = cg.ControlNode.Id
			}
		}
	}
	return ""
}

// epoch checks a new generation against the history; sameNumbers demands that
// identical new links carry identical numbers (sequential executor only).
func (l *InnovationLedger) epoch(gs []*genetics.Genome, sameNumbers bool) (clause, msg string, newInnov, newNodes int) {
	hwI, hwN := l.hwInnov, l.hwNode
	fresh := map[linkKey]int64{}
	for _, g := range gs {
		for _, n := range g.Nodes {
			if r, ok := l.node[n.Id]; ok {
				if r != n.NeuronType {
					return "node-role", fmt.Sprintf("node id %d denoted a %s node earlier and denotes a %s node now", n.Id, roleLetter(r), roleLetter(n.NeuronType)), 0, 0
				}
				continue
			}
			if n.Id <= hwN {
				return "node-id-not-fresh", fmt.Sprintf("node id %d first appears in this generation but is not larger than the largest id held before (%d)", n.Id, hwN), 0, 0
			}
			l.node[n.Id] = n.NeuronType
			newNodes++
			if n.Id > l.hwNode {
				l.hwNode = n.Id
			}
		}
		for _, gn := range g.Genes {
			k := linkKey{gn.Link.InNode.Id, gn.Link.OutNode.Id, gn.Link.IsRecurrent}
			if o, ok := l.innov[gn.InnovationNum]; ok {
				if o != k {
					return "innovation-two-links", fmt.Sprintf("innovation %d denoted %d->%d rec=%v earlier and denotes %d->%d rec=%v now",
						gn.InnovationNum, o.In, o.Out, o.Rec, k.In, k.Out, k.Rec), 0, 0
				}
			} else {
				if gn.InnovationNum <= hwI {
					return "innovation-not-fresh", fmt.Sprintf("innovation %d (%d->%d) first appears in this generation but is not larger than the largest number held before (%d)",
						gn.InnovationNum, k.In, k.Out, hwI), 0, 0
				}
				l.innov[gn.InnovationNum] = k
				newInnov++
				if gn.InnovationNum > l.hwInnov {
					l.hwInnov = gn.InnovationNum
				}
			}
			if gn.InnovationNum > hwI && sameNumbers {
				if o, ok := fresh[k]; ok && o != gn.InnovationNum {
					return "same-innovation-two-numbers", fmt.Sprintf("the new link %d->%d rec=%v arose twice in one generation under numbers %d and %d",
						k.In, k.Out, k.Rec, o, gn.InnovationNum), 0, 0
				}
				fresh[k] = gn.InnovationNum
			}
		}
	}
	return "", "", newInnov, newNodes
}

// preEpoch is what the harness remembers of a generation before it is turned over.
type preEpoch struct {
	orgs      []*genetics.Organism
	species   []*genetics.Species
	members   map[*genetics.Species][]*genetics.Organism
	spAge     map[int]int
	spALI     map[*genetics.Species]int
	fit       map[*genetics.Organism]float64
	champKeys map[*genetics.Species]map[string]bool
	champDesc map[*genetics.Species]string
	highest   float64
	sinceHigh int
}

func capturePre(pop *genetics.Population, wantChamps bool) *preEpoch {
	p := &preEpoch{members: map[*genetics.Species][]*genetics.Organism{}, spAge: map[int]int{}, spALI: map[*genetics.Species]int{}, fit: map[*genetics.Organism]float64{},
		highest: pop.HighestFitness, sinceHigh: pop.EpochsHighestLastChanged}
	p.orgs = append(p.orgs, pop.Organisms...)
	p.species = append(p.species, pop.Species...)
	for _, o := range pop.Organisms {
		p.fit[o] = o.Fitness
	}
	if wantChamps {
		p.champKeys = map[*genetics.Species]map[string]bool{}
		p.champDesc = map[*genetics.Species]string{}
	}
	for _, s := range pop.Species {
		p.members[s] = append([]*genetics.Organism(nil), s.Organisms...)
		p.spAge[s.Id] = s.Age
		p.spALI[s] = s.AgeOfLastImprovement
		if wantChamps {
			best := math.Inf(-1)
			for _, o := range s.Organisms {
				if o.Fitness > best {
					best = o.Fitness
				}
			}
			ks := map[string]bool{}
			for _, o := range s.Organisms {
				if o.Fitness == best {
					sp := SpecOf(o.Genotype)
					ks[sp.Key()] = true
					if p.champDesc[s] == "" {
						p.champDesc[s] = sp.Short()
					}
				}
			}
			p.champKeys[s] = ks
		}
	}
	return p
}

// popRun is the state of one execution of an epoch scenario.
type popRun struct {
	c             *Ctx
	sc            EpochScenario
	row           CfgRow
	opts          *neat.Options
	oracles       oracleSet
	x             *Exec
	ledger        *InnovationLedger
	seqExec       *genetics.SequentialPopulationEpochExecutor
	parExec       *genetics.ParallelPopulationEpochExecutor
	ioRoles       map[int]network.NodeNeuronType
	everSpID      map[int]bool
	maxSpID       int
	built         map[int]bool // species ids created by the constructor
	turnover      int
	failed        bool
	hash          []uint64
	knownGeneless bool      // scenario keeps single-point crossover on a random population (known finding)
	shape         *c09Shape // set when the run is a C09 preparation-phase shape
	keepKeys      bool      // C17: keep the textual population keys for diffing
	keys          []string
	// vacuity counters of this execution (merged into the Ctx by the caller)
	cnt map[string]int64
}

func (r *popRun) count(k string) { r.cnt[k]++ }

func (r *popRun) violate(prop, clause, msg string, epoch int) {
	r.failed = true
	if r.shape != nil {
		r.violateShape(*r.shape, clause, msg)
		return
	}
	sig := prop + "/" + clause
	rp := &Replay{Scenario: "epochs", Params: r.sc.params(), Answers: r.x.Answers(), Clause: msg,
		Trace: fmt.Sprintf("%s; epoch %d; %d draws", r.sc.String(), epoch, len(r.x.Points))}
	rp.Params["prop"] = prop
	r.c.ViolateOrd(sig, int64(len(r.x.Points))*64+int64(r.sc.Cfg), fmt.Sprintf("[%s, epoch %d] %s", r.sc.String(), epoch, msg), rp)
}

func genomesOf(pop *genetics.Population) []*genetics.Genome {
	gs := make([]*genetics.Genome, len(pop.Organisms))
	for i, o := range pop.Organisms {
		gs[i] = o.Genotype
	}
	return gs
}

// popKey is a bit-exact rendering of a population (genomes, species ids, ages, order).
func popKey(pop *genetics.Population) string {
	var b strings.Builder
	ni, nn := pop.VCounters()
	fmt.Fprintf(&b, "last=%d hf=%s since=%d ci=%d cn=%d|", pop.LastSpecies, fb(pop.HighestFitness), pop.EpochsHighestLastChanged, ni, nn)
	for _, s := range pop.Species {
		fmt.Fprintf(&b, "S%d a%d l%d m%s n%v[", s.Id, s.Age, s.AgeOfLastImprovement, fb(s.MaxFitnessEver), s.IsNovel)
		for _, o := range s.Organisms {
			fmt.Fprintf(&b, "%d,", o.Genotype.Id)
		}
		b.WriteString("]")
	}
	b.WriteByte('|')
	for _, o := range pop.Organisms {
		sid := -1
		if o.Species != nil {
			sid = o.Species.Id
		}
		fmt.Fprintf(&b, "O%d g%d s%d:%s\n", o.Genotype.Id, o.Generation, sid, SpecOf(o.Genotype).Key())
	}
	return b.String()
}

// fnv is a streaming FNV-1a hasher over binary fields (no allocation).
type fnv uint64

func newFnv() fnv { return 14695981039346656037 }
func (h *fnv) u64(v uint64) {
	x := uint64(*h)
	for i := 0; i < 8; i++ {
		x ^= v & 0xff
		x *= 1099511628211
		v >>= 8
	}
	*h = fnv(x)
}
func (h *fnv) i(v int)     { h.u64(uint64(int64(v))) }
func (h *fnv) f(v float64) { h.u64(math.Float64bits(v)) }
func (h *fnv) b(v bool) {
	if v {
		h.u64(1)
	} else {
		h.u64(0)
	}
}

func hashGenome(h *fnv, g *genetics.Genome) {
	h.i(len(g.Traits))
	for _, t := range g.Traits {
		h.i(t.Id)
		for _, p := range t.Params {
			h.f(p)
		}
	}
	h.i(len(g.Nodes))
	for _, n := range g.Nodes {
		h.i(n.Id)
		h.i(int(n.NeuronType))
		h.i(int(n.ActivationType))
		h.i(traitID(n.Trait))
	}
	h.i(len(g.Genes))
	for _, gn := range g.Genes {
		h.u64(uint64(gn.InnovationNum))
		h.i(gn.Link.InNode.Id)
		h.i(gn.Link.OutNode.Id)
		h.f(gn.Link.ConnectionWeight)
		h.b(gn.Link.IsRecurrent)
		h.f(gn.MutationNum)
		h.b(gn.IsEnabled)
		h.i(traitID(gn.Link.Trait))
	}
}

// popHash is the bit-exact fingerprint of a population (same content as popKey).
func popHash(pop *genetics.Population) uint64 {
	h := newFnv()
	ni, nn := pop.VCounters()
	h.i(pop.LastSpecies)
	h.f(pop.HighestFitness)
	h.i(pop.EpochsHighestLastChanged)
	h.u64(uint64(ni))
	h.i(int(nn))
	for _, s := range pop.Species {
		h.i(s.Id)
		h.i(s.Age)
		h.i(s.AgeOfLastImprovement)
		h.f(s.MaxFitnessEver)
		h.b(s.IsNovel)
		for _, o := range s.Organisms {
			h.i(o.Genotype.Id)
		}
	}
	for _, o := range pop.Organisms {
		h.i(o.Genotype.Id)
		h.i(o.Generation)
		if o.Species != nil {
			h.i(o.Species.Id)
		}
		hashGenome(&h, o.Genotype)
	}
	return uint64(h)
}

func (r *popRun) checkGenomes(pop *genetics.Population, epoch int) {
	if r.oracles&oWellFormed == 0 {
		return
	}
	for _, o := range pop.Organisms {
		if msg := wellFormed(o.Genotype); msg != "" {
			r.violate("C01", "ill-formed-genome-after-epoch", fmt.Sprintf("organism %d: %s; genome %s", o.Genotype.Id, msg, SpecOf(o.Genotype).Short()), epoch)
			return
		}
		have := map[int]network.NodeNeuronType{}
		for _, n := range o.Genotype.Nodes {
			have[n.Id] = n.NeuronType
		}
		for id, role := range r.ioRoles {
			if have[id] != role || func() bool { _, ok := have[id]; return !ok }() {
				r.violate("C01", "io-node-lost", fmt.Sprintf("organism %d lost the ancestors' %s node %d; genome %s", o.Genotype.Id, roleLetter(role), id, SpecOf(o.Genotype).Short()), epoch)
				return
			}
		}
	}
}

func (r *popRun) afterConstruct(pop *genetics.Population) {
	r.ioRoles = map[int]network.NodeNeuronType{}
	if len(pop.Organisms) > 0 {
		for _, n := range pop.Organisms[0].Genotype.Nodes {
			if n.NeuronType != network.HiddenNeuron {
				r.ioRoles[n.Id] = n.NeuronType
			}
		}
	}
	r.everSpID = map[int]bool{}
	r.built = map[int]bool{}
	for _, s := range pop.Species {
		r.everSpID[s.Id] = true
		r.built[s.Id] = s.IsNovel // species made by a constructor are protected from ageing once
		if s.Id > r.maxSpID {
			r.maxSpID = s.Id
		}
	}
	r.checkGenomes(pop, 0)
	if r.oracles&oSpeciate != 0 {
		// replay the constructor's speciation on an empty reference
		m := &specModel{}
		if _, hb := hbSpecs[r.sc.Seed]; !hb {
			if msg := c08Follow(m, pop.Organisms, r.opts, pop); msg != "" {
				r.violate("C08", "constructor-placement", msg, 0)
			}
			r.count("constructed_populations_followed")
		}
	}
	if r.oracles&oPop != 0 {
		if msg := r.partition(pop, nil); msg != "" {
			r.violate("C02", "constructed-population", msg, 0)
		}
	}
	if r.oracles&oLedger != 0 {
		r.ledger = newLedger()
		if msg := r.ledger.seedWith(genomesOf(pop)); msg != "" {
			r.violate("C03", "initial-population", msg, 0)
		}
		// counters must sit at/after the largest number held
		ni, nn := pop.VCounters()
		if ni < r.ledger.hwInnov || int(nn) < r.ledger.hwNode {
			r.violate("C03", "counter-initialisation", fmt.Sprintf("issue counters (innovation %d, node %d) are below numbers already held (%d, %d)", ni, nn, r.ledger.hwInnov, r.ledger.hwNode), 0)
		}
	}
}

// partition checks size, membership, uniqueness clauses of C02; returns "" if fine.
func (r *popRun) partition(pop *genetics.Population, pre *preEpoch) string {
	if len(pop.Organisms) != r.opts.PopSize {
		return fmt.Sprintf("population has %d organisms, configured size is %d", len(pop.Organisms), r.opts.PopSize)
	}
	inPop := map[*genetics.Organism]bool{}
	ids := map[int]bool{}
	for _, o := range pop.Organisms {
		if inPop[o] {
			return "an organism is listed twice in the population"
		}
		inPop[o] = true
		if ids[o.Genotype.Id] {
			return fmt.Sprintf("genome id %d occurs twice", o.Genotype.Id)
		}
		ids[o.Genotype.Id] = true
	}
	if pre != nil {
		old := map[*genetics.Organism]bool{}
		for _, o := range pre.orgs {
			old[o] = true
		}
		for _, o := range pop.Organisms {
			if old[o] {
				return fmt.Sprintf("organism %d of the previous generation is still in the population", o.Genotype.Id)
			}
		}
	}
	seen := map[*genetics.Organism]*genetics.Species{}
	spIDs := map[int]bool{}
	total := 0
	for _, s := range pop.Species {
		if spIDs[s.Id] {
			return fmt.Sprintf("species id %d occurs twice", s.Id)
		}
		spIDs[s.Id] = true
		if len(s.Organisms) == 0 {
			return fmt.Sprintf("species %d is empty", s.Id)
		}
		for _, o := range s.Organisms {
			if prev, dup := seen[o]; dup {
				return fmt.Sprintf("organism %d is listed by species %d and %d", o.Genotype.Id, prev.Id, s.Id)
			}
			seen[o] = s
			if !inPop[o] {
				return fmt.Sprintf("species %d lists organism %d which is not in the population", s.Id, o.Genotype.Id)
			}
			if o.Species != s {
				return fmt.Sprintf("organism %d is listed by species %d but its back pointer names another species", o.Genotype.Id, s.Id)
			}
			total++
		}
	}
	if total != len(pop.Organisms) {
		return fmt.Sprintf("species list %d organisms in total, the population has %d", total, len(pop.Organisms))
	}
	return ""
}

func (r *popRun) afterEpoch(pre *preEpoch, pop *genetics.Population, err error, epoch int) {
	if err != nil {
		if r.oracles&oPop != 0 {
			clause := "epoch-error"
			if r.knownGeneless && isGenelessSymptom(err.Error()) {
				clause = "epoch-error@random-population-single-point-geneless-child"
			}
			r.violate("C02", clause, "NextEpoch returned an error: "+err.Error(), epoch)
		}
		r.failed = true
		return
	}
	r.checkGenomes(pop, epoch)
	if r.oracles&oPop != 0 {
		if msg := r.partition(pop, pre); msg != "" {
			r.violate("C02", "partition", msg, epoch)
		} else {
			for _, s := range pop.Species {
				if prevAge, existed := pre.spAge[s.Id]; existed {
					want := prevAge + 1
					if r.turnover == 0 && r.built[s.Id] {
						want = prevAge
					}
					if s.Age != want {
						r.violate("C02", "species-age", fmt.Sprintf("surviving species %d has age %d after the turnover, expected %d", s.Id, s.Age, want), epoch)
					}
				} else {
					if r.everSpID[s.Id] || s.Id <= r.maxSpID {
						r.violate("C02", "species-id-reused", fmt.Sprintf("new species got id %d although ids up to %d were issued before", s.Id, r.maxSpID), epoch)
					}
					if s.Age != 1 {
						r.violate("C02", "species-age", fmt.Sprintf("species %d founded in this turnover has age %d, expected 1", s.Id, s.Age), epoch)
					}
					r.count("species_founded")
				}
			}
			if len(pop.Species) < len(pre.species) {
				r.count("species_extinct")
			}
		}
	}
	for _, s := range pop.Species {
		r.everSpID[s.Id] = true
		if s.Id > r.maxSpID {
			r.maxSpID = s.Id
		}
	}
	if r.oracles&oLedger != 0 && r.ledger != nil {
		clause, msg, ni, nn := r.ledger.epoch(genomesOf(pop), !strings.HasPrefix(r.sc.Mode, "par"))
		if clause != "" {
			r.violate("C03", clause, msg, epoch)
		}
		if ni > 0 {
			r.count("epochs_with_new_innovations")
		}
		if nn > 0 {
			r.count("epochs_with_new_nodes")
		}
		if n := len(pop.VInnovationsRaw()); n != 0 {
			r.violate("C03", "record-not-forgotten", fmt.Sprintf("%d innovation records survive the end of the generation", n), epoch)
		}
	}
	if r.oracles&oQuota != 0 {
		r.checkQuotas(pre, pop, epoch)
	}
	if r.oracles&oChamp != 0 {
		r.checkChampions(pre, pop, epoch)
	}
	r.turnover++
}

// checkQuotas is the C09 oracle evaluated on the previous generation's objects after the epoch.
func (r *popRun) checkQuotas(pre *preEpoch, pop *genetics.Population, epoch int) {
	n := len(pre.orgs)
	total := 0
	for _, s := range pre.species {
		total += s.ExpectedOffspring
	}
	if total != r.opts.PopSize {
		r.violate("C09", "quotas-do-not-total-popsize", fmt.Sprintf("species quotas total %d, population size is %d", total, r.opts.PopSize), epoch)
		return
	}
	sumAdj := 0.0
	anyPos := false
	for _, o := range pre.orgs {
		if o.VOriginalFitness() != pre.fit[o] {
			r.violate("C09", "original-fitness", fmt.Sprintf("organism's remembered original fitness %g differs from the assigned fitness %g", o.VOriginalFitness(), pre.fit[o]), epoch)
			return
		}
		sumAdj += o.Fitness
		if pre.fit[o] > 0 {
			anyPos = true
		}
	}
	// parents cut-off: the unmarked organisms of a species are its top floor(surv*n)+1 by fitness
	for _, s := range pre.species {
		mem := pre.members[s]
		want := int(math.Floor(r.opts.SurvivalThresh*float64(len(mem)) + 1.0))
		if want > len(mem) {
			want = len(mem)
		}
		kept := 0
		minKept, maxCut := math.Inf(1), math.Inf(-1)
		for _, o := range mem {
			if o.VToEliminate() {
				if o.Fitness > maxCut {
					maxCut = o.Fitness
				}
			} else {
				kept++
				if o.Fitness < minKept {
					minKept = o.Fitness
				}
			}
		}
		if kept != want {
			r.violate("C09", "parent-cutoff-count", fmt.Sprintf("species %d of size %d keeps %d organisms as parents, floor(%g*%d)+1 = %d expected", s.Id, len(mem), kept, r.opts.SurvivalThresh, len(mem), want), epoch)
			return
		}
		if maxCut > minKept {
			r.violate("C09", "parent-cutoff-order", fmt.Sprintf("species %d eliminates an organism of adjusted fitness %g but keeps one of %g", s.Id, maxCut, minKept), epoch)
			return
		}
		// age adjustment as documented (NEAT): fitness/100 once the species has gone DropOffAge
		// generations without improvement (age - age_of_last_improvement + 1 >= dropoff_age),
		// times AgeSignificance up to age 10; then shared by the species size
		wantFactor := 1.0
		if (pre.spAge[s.Id]-pre.spALI[s]+1)-r.opts.DropOffAge >= 0 {
			wantFactor *= 0.01
		}
		if pre.spAge[s.Id] <= 10 {
			wantFactor *= r.opts.AgeSignificance
		}
		// shared fitness: one common positive factor per species, divided by its size
		ref := math.NaN()
		for _, o := range mem {
			f := pre.fit[o]
			if f > 0 && wantFactor == 0 {
				if o.Fitness != 0 {
					r.violate("C09", "age-adjustment", fmt.Sprintf("species %d: age significance 0 applies (age %d) but the adjusted fitness is %g", s.Id, pre.spAge[s.Id], o.Fitness), epoch)
					return
				}
			} else if f > 0 {
				k := o.Fitness * float64(len(mem)) / f
				if !(k > 0) || math.IsInf(k, 0) {
					r.violate("C09", "fitness-sharing", fmt.Sprintf("species %d: adjusted fitness %g for original %g is not a positive multiple", s.Id, o.Fitness, f), epoch)
					return
				}
				if !relClose(k, wantFactor, 1e-9) {
					r.violate("C09", "age-adjustment", fmt.Sprintf("species %d (age %d, last improved at age %d, drop-off age %d, age significance %g): adjusted fitness is original x %g / size, the documented stagnation penalty / youth boost give x %g",
						s.Id, pre.spAge[s.Id], pre.spALI[s], r.opts.DropOffAge, r.opts.AgeSignificance, k, wantFactor), epoch)
					return
				}
				if math.IsNaN(ref) {
					ref = k
				} else if !relClose(ref, k, 1e-9) {
					r.violate("C09", "fitness-sharing", fmt.Sprintf("species %d of size %d: adjusted/original*size is %g for one member and %g for another (fitness is not shared uniformly)", s.Id, len(mem), ref, k), epoch)
					return
				}
			} else if f < 0 {
				// a negative result of the age adjustment is replaced by 0.0001 and then shared (the
				// adjustment of a negative value stays negative; with age significance 0 it becomes zero)
				want := 0.0001 / float64(len(mem))
				if wantFactor == 0 {
					want = 0
				}
				if !relClose(o.Fitness, want, 1e-9) && !(want == 0 && o.Fitness == 0) {
					r.violate("C09", "negative-fitness", fmt.Sprintf("species %d (age %d, last improved at age %d, size %d): an organism of negative fitness %g ends with adjusted fitness %g; a negative age-adjusted value is replaced by 0.0001 and shared by the species size: %g", s.Id, pre.spAge[s.Id], pre.spALI[s], len(mem), f, o.Fitness, want), epoch)
					return
				}
			} else if o.Fitness != 0 {
				r.violate("C09", "fitness-sharing", fmt.Sprintf("species %d: zero original fitness became %g", s.Id, o.Fitness), epoch)
				return
			}
		}
	}
	if !anyPos || sumAdj == 0 {
		r.count("quota_epochs_zero_mean")
		return
	}
	mean := sumAdj / float64(n)
	for _, o := range pre.orgs {
		if !relClose(o.ExpectedOffspring, o.Fitness/mean, 1e-9) {
			r.violate("C09", "expected-offspring", fmt.Sprintf("organism expects %g offspring, adjusted fitness / population mean = %g", o.ExpectedOffspring, o.Fitness/mean), epoch)
			return
		}
	}
	deltaPossible := pre.sinceHigh+1 >= r.opts.DropOffAge+5
	if r.opts.BabiesStolen > 0 || deltaPossible {
		if deltaPossible {
			r.count("quota_epochs_delta_coding_possible")
		} else {
			r.count("quota_epochs_with_stealing")
		}
		return
	}
	// floor with carried fraction in species order, at most one make-up offspring
	cum := 0.0
	pref := 0
	step := 0
	for _, s := range pre.species {
		for _, o := range pre.members[s] {
			cum += o.ExpectedOffspring
		}
		pref += s.ExpectedOffspring
		lo, hi := int(math.Floor(cum-1e-7)), int(math.Floor(cum+1e-7))
		// d = make-up offspring handed out so far: must be 0 or 1 and never decrease; when the
		// cumulative sum is within rounding of an integer either floor is accepted
		d := -1
		for _, cand := range []int{pref - hi, pref - lo} {
			if cand >= step && cand <= 1 && (d < 0 || cand < d) {
				d = cand
			}
		}
		if d < 0 {
			tab := ""
			for _, t := range pre.species {
				e := 0.0
				for _, o := range pre.members[t] {
					e += o.ExpectedOffspring
				}
				tab += fmt.Sprintf(" [species %d: quota %d, members expect %.12g]", t.Id, t.ExpectedOffspring, e)
			}
			r.violate("C09", "floor-carry", fmt.Sprintf("after species %d the quotas sum to %d while the members' expected offspring sum to %.12g (floor with carried fractions, at most one make-up offspring);%s", s.Id, pref, cum, tab), epoch)
			return
		}
		if d > step {
			step = d
			r.count("quota_makeup_offspring")
		}
	}
	r.count("quota_epochs_floor_carry_checked")
}

// checkChampions is the C10 oracle.
func (r *popRun) checkChampions(pre *preEpoch, pop *genetics.Population, epoch int) {
	var have map[string]bool
	for _, s := range pre.species {
		if s.ExpectedOffspring <= 5 {
			continue
		}
		r.count("champion_species_quota_gt5")
		if have == nil {
			have = map[string]bool{}
			for _, o := range pop.Organisms {
				have[SpecOf(o.Genotype).Key()] = true
			}
		}
		ok := false
		for k := range pre.champKeys[s] {
			if have[k] {
				ok = true
				break
			}
		}
		if !ok && r.opts.AgeSignificance == 0 && pre.spAge[s.Id] <= 10 {
			// known finding: with AgeSignificance 0 the adjusted fitness of every member of a young species is 0,
			// the species is sorted on that value, and the clone is taken from whichever member ends up first
			r.violate("C10", "champion-lost@age-significance-zero", fmt.Sprintf("species %d (age %d) had quota %d; with AgeSignificance 0 all adjusted fitness values are 0 and the clone was not taken from the fittest organism %s",
				s.Id, pre.spAge[s.Id], s.ExpectedOffspring, pre.champDesc[s]), epoch)
			return
		}
		if !ok {
			r.violate("C10", "champion-lost", fmt.Sprintf("species %d had quota %d but no organism of the next generation carries an unmodified copy of its champion %s",
				s.Id, s.ExpectedOffspring, pre.champDesc[s]), epoch)
			return
		}
	}
}

// processSeqExec / processParExec, when non-nil, are the ONE executor value every run of the process uses
// (an application may keep one executor for several populations and experiments); otherwise a run keeps
// one executor for all its epochs, as Experiment.Execute does for a trial.
var processSeqExec *genetics.SequentialPopulationEpochExecutor
var processParExec *genetics.ParallelPopulationEpochExecutor

func (r *popRun) seqExecutor() *genetics.SequentialPopulationEpochExecutor {
	if processSeqExec != nil {
		return processSeqExec
	}
	if r.seqExec == nil {
		r.seqExec = &genetics.SequentialPopulationEpochExecutor{}
	}
	return r.seqExec
}

func (r *popRun) parExecutor() *genetics.ParallelPopulationEpochExecutor {
	if processParExec != nil {
		return processParExec
	}
	if r.parExec == nil {
		r.parExec = &genetics.ParallelPopulationEpochExecutor{}
	}
	return r.parExec
}

// shareExecutors switches the process-wide executors on.
func shareExecutors() {
	processSeqExec = &genetics.SequentialPopulationEpochExecutor{}
	processParExec = &genetics.ParallelPopulationEpochExecutor{}
}

// step turns the population over in the scenario's mode.
func (r *popRun) step(ctx context.Context, pop *genetics.Population, gen int, pre *preEpoch) error {
	switch r.sc.Mode {
	case "whole":
		return r.seqExecutor().NextEpoch(ctx, gen, pop)
	case "par", "parrev":
		// the parallel executor under the controlled scheduler with a fixed schedule
		// (default: the running thread continues, else the lowest id; parrev: the highest id);
		// its interleavings are explored by C16
		ex := r.parExecutor()
		var err error
		rev := r.sc.Mode == "parrev"
		res := vsched.Run(vsched.Config{MaxSteps: 200000, Choose: func(n int, cur bool) int {
			if rev {
				return n - 1
			}
			return 0
		}}, func() { err = ex.NextEpoch(ctx, gen, pop) })
		if res.Panic != nil {
			panic(res.Panic)
		}
		if res.Deadlock || res.Budget {
			return fmt.Errorf("parallel epoch did not complete under the fixed schedule (deadlock=%v, step budget exhausted=%v)", res.Deadlock, res.Budget)
		}
		if res.Threads > 2 {
			r.count("parallel_epochs_with_several_reproduction_threads")
		}
		return err
	case "phase", "perspecies":
		ex := r.seqExecutor()
		if err := ex.VPrepare(ctx, gen, pop); err != nil {
			return err
		}
		if r.oracles&oQuota != 0 {
			// between the phases: the organisms left in each species are exactly the unmarked ones
			for _, s := range pop.Species {
				for _, o := range s.Organisms {
					if o.VToEliminate() {
						r.violate("C09", "eliminated-organism-still-parent", fmt.Sprintf("species %d still lists an organism marked for elimination when reproduction starts", s.Id), gen)
					}
				}
				left := 0
				for _, o := range pre.members[s] {
					if !o.VToEliminate() {
						left++
					}
				}
				if left != len(s.Organisms) {
					r.violate("C09", "parents-missing", fmt.Sprintf("species %d has %d organisms available as parents, %d were not marked for elimination", s.Id, len(s.Organisms), left), gen)
				}
			}
		}
		if r.sc.Mode == "phase" {
			if err := ex.VReproduce(ctx, gen, pop); err != nil {
				return err
			}
		} else {
			var babies []*genetics.Organism
			for _, s := range pop.Species {
				bs, err := s.VReproduce(ctx, gen, pop, ex.VSortedSpecies())
				if err != nil {
					return err
				}
				if len(bs) != s.ExpectedOffspring {
					r.violate("C09", "offspring-count", fmt.Sprintf("species %d with quota %d produced %d offspring", s.Id, s.ExpectedOffspring, len(bs)), gen)
				}
				if s.ExpectedOffspring == 0 {
					r.count("species_with_zero_quota_at_reproduction")
				}
				babies = append(babies, bs...)
			}
			ex.VSetBestReproduced(true)
			if len(babies) != r.opts.PopSize {
				return fmt.Errorf("progeny size %d != %d", len(babies), r.opts.PopSize)
			}
			var model *specModel
			if r.oracles&oSpeciate != 0 {
				model = modelOf(pop)
				if r.maxSpID > model.maxID {
					model.maxID = r.maxSpID // ids issued earlier in the run, whatever the population records now
				}
			}
			if err := pop.VSpeciate(ctx, babies); err != nil {
				return err
			}
			if model != nil {
				if msg := c08Follow(model, babies, r.opts, pop); msg != "" {
					r.violate("C08", "epoch-placement", msg, gen)
				}
				r.count("baby_batches_followed")
			}
		}
		if r.oracles&oLedger != 0 {
			// the generation's record must not hold the same innovation twice
			type ik struct {
				node    bool
				in, out int
				old     int64
				rec     bool
			}
			seen := map[ik]bool{}
			for _, in := range pop.VInnovationsRaw() {
				k := ik{node: in.VIsNode(), in: in.InNodeId, out: in.OutNodeId}
				if k.node {
					k.old = in.OldInnovNum
				} else {
					k.rec = in.IsRecurrent
				}
				if seen[k] {
					r.violate("C03", "same-innovation-recorded-twice", fmt.Sprintf("the generation's record holds the innovation (node=%v %d->%d old=%d rec=%v) twice, i.e. it was issued two sets of numbers", k.node, k.in, k.out, k.old, k.rec), gen)
				}
				seen[k] = true
			}
			if len(seen) > 0 {
				r.count("epochs_with_recorded_innovations")
			}
		}
		return ex.VFinalize(ctx, pop)
	}
	panic("unknown mode " + r.sc.Mode)
}

// hbSpec describes a hand-built, pre-speciated population: species sizes, ages and
// generations since each species last improved.
type hbSpec struct {
	Sizes, Ages, Lags []int
	Stagnant          bool // the population-level stagnation counter is far past DropOffAge+5 (delta coding at the next epoch)
	Unsorted          bool // genes are listed in descending innovation order (legal for the readers and for duplication, not produced by the operators)
	DiscSensor        bool // no genome holds a gene leaving sensor 3 (connect-sensors has work to do)
	MinHidden         int  // every genome has at least this many hidden nodes (species i: MinHidden + i)
	Cross             bool // the members of a species other than its first and last resemble the NEXT species' genomes (a member's offspring may be nearest to another species' representative)
	SelfLoop          bool // every genome carries a self-loop gene on the output that is NOT flagged recurrent (legal for the readers and constructors, not produced by add-link)
}

var hbSpecs = map[string]hbSpec{
	"hb1": {Sizes: []int{8, 8, 8}, Ages: []int{7, 7, 7}, Lags: []int{0, 2, 6}},
	"hb2": {Sizes: []int{5, 1}, Ages: []int{11, 1}, Lags: []int{3, 0}},
	"hb3": {Sizes: []int{1, 1, 4}, Ages: []int{20, 6, 1}, Lags: []int{16, 0, 0}},
	"hb4": {Sizes: []int{2, 2, 2}, Ages: []int{6, 7, 11}, Lags: []int{0, 1, 2}},
	"hb5": {Sizes: []int{10, 6, 4, 4}, Ages: []int{7, 8, 9, 12}, Lags: []int{1, 2, 3, 14}},
	"hb6": {Sizes: []int{14, 7, 5, 4}, Ages: []int{7, 7, 7, 7}, Lags: []int{0, 0, 0, 0}},
	// stagnating population whose species hold members that resemble another species: at the delta-coding epoch the
	// species below the top two keep their organisms (quota 0) while babies that are nearest to them arrive
	"hbx": {Sizes: []int{5, 4, 4}, Ages: []int{7, 5, 4}, Lags: []int{1, 0, 0}, Stagnant: true, Cross: true},
	// many species: more reproduction goroutines in a parallel epoch than any fixed pool size a implementation may have (20 species, 40 organisms)
	"hbm": {Sizes: []int{2, 2, 2, 2, 2, 2, 2, 2, 2, 2, 2, 2, 2, 2, 2, 2, 2, 2, 2, 2}, Ages: []int{3, 4, 5, 6, 7, 3, 4, 5, 6, 7, 3, 4, 5, 6, 7, 3, 4, 5, 6, 7}, Lags: []int{0, 0, 1, 0, 2, 0, 0, 1, 0, 2, 0, 0, 1, 0, 2, 0, 0, 1, 0, 2}},
	"hbt": {Sizes: []int{2, 2, 2, 2, 2}, Ages: []int{3, 4, 5, 6, 7}, Lags: []int{0, 0, 1, 0, 2}},
	// stagnating populations of odd size: delta coding hands the whole population to the top one / two species
	"hbd1": {Sizes: []int{7, 6}, Ages: []int{3, 4}, Lags: []int{0, 0}, Stagnant: true},
	"hbd2": {Sizes: []int{6, 5, 4}, Ages: []int{7, 3, 2}, Lags: []int{1, 0, 0}, Stagnant: true},
	"hbd3": {Sizes: []int{13}, Ages: []int{5}, Lags: []int{0}, Stagnant: true},
	// one sizeable species whose genomes list their genes out of innovation order
	"hbu": {Sizes: []int{8}, Ages: []int{3}, Lags: []int{0}, Unsorted: true},
	// one sizeable species whose genomes hold an unflagged self-loop gene without a trait
	"hbs": {Sizes: []int{8}, Ages: []int{3}, Lags: []int{0}, SelfLoop: true},
}

// hbGenome: the XOR start genome plus k hidden nodes, each splitting gene 2->4
// (node 5+j with genes #4+2j: 2->5+j and #5+2j: 5+j->4); weights vary with idx.
func hbGenome(id, k, idx int) *GenomeSpec {
	g := xorSeed()
	g.ID = id
	for i := range g.Genes {
		g.Genes[i].W = 0.25 * float64(idx+1) * float64(i+1)
		g.Genes[i].Mut = g.Genes[i].W
	}
	for j := 0; j < k; j++ {
		n := 5 + j
		g.Nodes = append(g.Nodes, NodeSpec{ID: n, Role: network.HiddenNeuron, Act: g.Nodes[3].Act, Trait: 1})
		g.Genes = append(g.Genes, GeneSpec{In: 2, Out: n, W: 1, Innov: int64(4 + 2*j), Mut: 0, En: true, Trait: 2},
			GeneSpec{In: n, Out: 4, W: 0.5 + 0.125*float64(idx), Innov: int64(5 + 2*j), Mut: 0, En: true, Trait: 2})
	}
	return g
}

func buildHandBuilt(sp hbSpec, opts *neat.Options) *genetics.Population {
	pop := genetics.VNewEmptyPopulation()
	id := 0
	maxK := len(sp.Sizes)
	for si, size := range sp.Sizes {
		s := genetics.NewSpecies(si + 1)
		s.Age = sp.Ages[si]
		s.AgeOfLastImprovement = sp.Ages[si] - sp.Lags[si]
		s.MaxFitnessEver = 1e9 // no species improves during the run unless the landscape exceeds this
		if sp.Lags[si] == 0 {
			s.MaxFitnessEver = 0
		}
		for i := 0; i < size; i++ {
			spec := hbGenome(id, si+func() int {
				if sp.Unsorted {
					return 2
				}
				if sp.Cross && i%2 == 1 {
					return (si+1)%len(sp.Sizes) - si
				}
				return sp.MinHidden
			}(), i)
			if sp.DiscSensor {
				var kept []GeneSpec
				for _, g := range spec.Genes {
					if g.In != 3 {
						kept = append(kept, g)
					}
				}
				spec.Genes = kept
			}
			if sp.SelfLoop {
				spec.Genes = append(spec.Genes, GeneSpec{In: 4, Out: 4, W: 0.7, Innov: int64(4 + 2*si), Mut: 0.7, En: true, Trait: 0})
			}
			if sp.Unsorted {
				for a, b := 0, len(spec.Genes)-1; a < b; a, b = a+1, b-1 {
					spec.Genes[a], spec.Genes[b] = spec.Genes[b], spec.Genes[a]
				}
			}
			g := spec.Build()
			o, _ := genetics.NewOrganism(0, g, 1)
			o.Species = s
			s.VAddOrganism(o)
			pop.Organisms = append(pop.Organisms, o)
			id++
		}
		pop.Species = append(pop.Species, s)
	}
	pop.LastSpecies = len(sp.Sizes)
	if sp.Stagnant {
		pop.EpochsHighestLastChanged = 1000
		pop.HighestFitness = 1e12
	}
	if sp.Unsorted {
		maxK += 2
	}
	maxK += sp.MinHidden
	if sp.SelfLoop {
		maxK++
	}
	pop.VSetCounters(int64(3+2*maxK), int32(5+maxK))
	opts.PopSize = id
	return pop
}

// readPopulationText renders genomes of different sizes (the structurally smallest
// last) in the plain population format and loads them through ReadPopulation.
func buildByReading(opts *neat.Options) (*genetics.Population, error) {
	var b strings.Builder
	n := opts.PopSize
	for i := 0; i < n; i++ {
		k := (n - 1 - i) % 3 // 2,1,0,... : the last genome is the smallest
		g := hbGenome(i, k, i).Build()
		if err := g.Write(&b); err != nil {
			return nil, err
		}
	}
	return genetics.ReadPopulation(strings.NewReader(b.String()), opts)
}

// sharedOptions, when non-nil, makes every run of a process with the same start population and configuration row use
// the SAME options value (as an application that evolves several times with the options it loaded once): whatever a
// run writes into the caller's options is seen by the next run. C17 switches it on.
var sharedOptions map[string]*neat.Options

// startGenomes, when non-nil, makes every run of a process start from the SAME start genome object per
// seed name (as an application that runs several evolutions from one loaded genome does): whatever a
// run leaves behind in the caller's genome is seen by the next run. C17 switches it on.
var startGenomes map[string]*genetics.Genome

func startGenome(name string, spec *GenomeSpec) *genetics.Genome {
	if startGenomes == nil {
		return spec.Build()
	}
	g, ok := startGenomes[name]
	if !ok {
		g = spec.Build()
		startGenomes[name] = g
	}
	return g
}

// construct builds the scenario's initial population (its draws are part of the execution).
func (r *popRun) construct() (*genetics.Population, error) {
	if sp, ok := hbSpecs[r.sc.Seed]; ok {
		return buildHandBuilt(sp, r.opts), nil
	}
	switch r.sc.Seed {
	case "read":
		return buildByReading(r.opts)
	case "rand", "randsp":
		return genetics.NewPopulationRandom(3, 1, 2, false, 0.5, r.opts)
	case "randrec":
		return genetics.NewPopulationRandom(3, 2, 3, true, 0.5, r.opts)
	}
	spec := seedByName(r.sc.Seed)
	if r.sc.Seed == "multidisc" {
		spec = multiDiscSeed()
	}
	if spec == nil {
		panic("unknown seed " + r.sc.Seed)
	}
	return genetics.NewPopulation(startGenome(r.sc.Seed, spec), r.opts)
}

// runEpochBody is the harness body: construct, then Epochs x (assign fitness, turn over, check).
func runEpochBody(c *Ctx, sc EpochScenario, oracles oracleSet, x *Exec, cnt map[string]int64) *popRun {
	return runEpochBodyOpts(c, sc, oracles, x, cnt, nil, false)
}

// runEpochBodyOpts: tweak (if set) adjusts the options; keepKeys keeps textual population keys.
// epochVerbose: every third scenario (by a hash of its name) runs at the library's log level "debug" with the
// four log sinks silenced - the log level is a process-wide setting of the library like any other, and what
// is logged must neither fail nor influence the turnover. Returns the function that restores the level.
func epochVerbose(sc EpochScenario) func() {
	sc.Policy = ""
	if hashString(sc.String())%3 != 0 {
		return func() {}
	}
	oldLevel, d, i, w, e := neat.LogLevel, neat.DebugLog, neat.InfoLog, neat.WarnLog, neat.ErrorLog
	quiet := func(string) {}
	neat.DebugLog, neat.InfoLog, neat.WarnLog, neat.ErrorLog = quiet, quiet, quiet, quiet
	neat.LogLevel = neat.LogLevelDebug
	return func() {
		neat.LogLevel, neat.DebugLog, neat.InfoLog, neat.WarnLog, neat.ErrorLog = oldLevel, d, i, w, e
	}
}

func runEpochBodyOpts(c *Ctx, sc EpochScenario, oracles oracleSet, x *Exec, cnt map[string]int64, tweak func(*neat.Options), keepKeys bool) *popRun {
	if c.ID != "C17" && c.ID != "C17CHILD" {
		defer epochVerbose(sc)()
	}
	row := cfgRows[sc.Cfg]
	r := &popRun{c: c, sc: sc, row: row, oracles: oracles, x: x, cnt: cnt, keepKeys: keepKeys}
	optKey := fmt.Sprintf("%s/%d", sc.Seed, sc.Cfg)
	if o, ok := sharedOptions[optKey]; ok {
		r.opts = o // the very options value an earlier run of this process was given
	} else {
		r.opts = row.Options()
		if tweak != nil {
			tweak(r.opts)
		}
		if sc.Seed == "rand" || sc.Seed == "randrec" {
			// Random populations have no common gene prefix; single-point crossover of such
			// parents can yield a gene-less child (known finding, decided at operator level by
			// C01/C04 and by the dedicated C02 scenario). The generic runs keep random
			// populations but route single-point matings to multipoint-avg so that every
			// other behaviour of such populations is still explored.
			r.opts.MateMultipointAvgProb += r.opts.MateSinglepointProb
			r.opts.MateSinglepointProb = 0
		}
		if sharedOptions != nil {
			sharedOptions[optKey] = r.opts
		}
	}
	if sc.Seed == "randsp" {
		r.knownGeneless = true
	}
	ctx := r.opts.NeatContext()
	pop, err := r.construct()
	if err != nil {
		if strings.Contains(err.Error(), "no Genes") || strings.Contains(err.Error(), "without GENES") {
			r.count("construct_rejected_no_genes")
			return r
		}
		r.violate("C02", "construct-error", "population constructor failed: "+err.Error(), 0)
		return r
	}
	if sc.Seed == "rand" || sc.Seed == "randrec" || sc.Seed == "randsp" {
		for _, o := range pop.Organisms {
			if len(o.Genotype.Genes) == 0 {
				// a gene-less random genome is not a well-formed start genome; outside the property's premise
				r.count("construct_random_genome_without_genes")
				return r
			}
		}
	}
	r.afterConstruct(pop)
	var hs []uint64
	hs = append(hs, popHash(pop))
	if r.keepKeys {
		r.keys = append(r.keys, popKey(pop))
	}
	for gen := 1; gen <= sc.Epochs && !r.failed; gen++ {
		n := len(pop.Organisms)
		for i, o := range pop.Organisms {
			o.Fitness = fitnessOf(sc.Fit, gen, i, n, o)
		}
		pre := capturePre(pop, oracles&oChamp != 0)
		prevSpecies := len(pop.Species)
		err := r.step(ctx, pop, gen, pre)
		r.afterEpoch(pre, pop, err, gen)
		if err != nil {
			break
		}
		r.observe(pre, pop, prevSpecies)
		hs = append(hs, popHash(pop))
		if r.keepKeys {
			r.keys = append(r.keys, popKey(pop))
		}
	}
	r.hash = hs
	eh := newFnv()
	for _, v := range hs {
		eh.u64(v)
	}
	x.EndHash = uint64(eh)
	return r
}

// observe updates the vacuity counters from what the epoch visibly did.
func (r *popRun) observe(pre *preEpoch, pop *genetics.Population, prevSpecies int) {
	r.count("epochs")
	if len(pop.Species) > 1 {
		r.count("epochs_ending_with_several_species")
	}
	if pre.sinceHigh+1 >= r.opts.DropOffAge+5 && pop.EpochsHighestLastChanged == 0 {
		r.count("delta_coding_epochs")
	}
	st, mate, super := false, false, false
	for _, o := range pop.Organisms {
		if o.VMutStructBaby() {
			st = true
		}
		if o.VMateBaby() {
			mate = true
		}
	}
	for _, o := range pre.orgs {
		_ = o
	}
	for _, s := range pre.species {
		if s.ExpectedOffspring == 0 {
			r.count("species_with_final_quota_zero")
		}
	}
	if r.opts.BabiesStolen > 0 {
		for _, s := range pre.species {
			if s.Age > 5 && len(pre.species) > 1 {
				super = true
			}
		}
	}
	if st {
		r.count("epochs_with_structural_babies")
	}
	if mate {
		r.count("epochs_with_mated_babies")
	}
	if super {
		r.count("epochs_where_stealing_could_apply")
	}
	maxNodes := 0
	disabled := false
	for _, o := range pop.Organisms {
		if len(o.Genotype.Nodes) > maxNodes {
			maxNodes = len(o.Genotype.Nodes)
		}
		for _, g := range o.Genotype.Genes {
			if !g.IsEnabled {
				disabled = true
			}
		}
	}
	if disabled {
		r.count("epochs_with_disabled_genes_present")
	}
}

// sortedKeys is a small helper for deterministic output.
func sortedKeys(m map[string]int64) []string {
	ks := make([]string, 0, len(m))
	for k := range m {
		ks = append(ks, k)
	}
	sort.Strings(ks)
	return ks
}

// isGenelessSymptom recognises the failures that follow from a gene-less genome.
func isGenelessSymptom(msg string) bool {
	for _, k := range []string{"without GENES", "has no genes", "has no Genes", "no genes to", "invalid argument to Intn"} {
		if strings.Contains(msg, k) {
			return true
		}
	}
	return false
}
