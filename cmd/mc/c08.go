package main

import (
	"context"
	"fmt"

	"github.com/yaricom/goNEAT/v4/neat"
	"github.com/yaricom/goNEAT/v4/neat/genetics"
)

// C08 — speciation puts each organism in its nearest compatible species.
//
// (a) E4: a family F of structurally different genomes; existing populations =
// every way to pre-speciate an ordered choice of up to 2 (quick) / 3 (thorough)
// members; batches = every ordered arrangement of up to 3 / 4 further members;
// thresholds x both compatibility methods. The real speciate runs on the batch and
// is followed organism by organism by a list-of-lists reference that uses the
// library's own distance function.
// (b) the same lock-step reference on the speciation of the babies of every epoch
// of E1 multi-epoch runs (species-wise driving) and on the populations built by the
// constructors.

func init() { register("C08", "model_checking", runC08, replayC08) }

// hbMask: the XOR start genome plus hidden node 5+j (genes #4+2j: 2->5+j, #5+2j: 5+j->4)
// for every set bit j of mask, so that members differ by excess AND by disjoint genes.
func hbMask(id int, mask uint, idx int) *GenomeSpec {
	full := hbGenome(id, 3, idx)
	g := &GenomeSpec{ID: id, Traits: full.Traits}
	keepNode := map[int]bool{1: true, 2: true, 3: true, 4: true}
	for j := 0; j < 3; j++ {
		if mask&(1<<uint(j)) != 0 {
			keepNode[5+j] = true
		}
	}
	for _, n := range full.Nodes {
		if keepNode[n.ID] {
			g.Nodes = append(g.Nodes, n)
		}
	}
	for _, gn := range full.Genes {
		if keepNode[gn.In] && keepNode[gn.Out] {
			g.Genes = append(g.Genes, gn)
		}
	}
	return g
}

// (members 0b101 and 0b010 interleave in their tails: genes of one on both sides of an unmatched gene of the other)
func c08Family(n int) []*GenomeSpec {
	f := []*GenomeSpec{hbMask(0, 0b000, 0), hbMask(1, 0b001, 0), hbMask(2, 0b010, 0), hbMask(3, 0b111, 0), hbMask(4, 0b101, 5), hbMask(5, 0b000, 1), hbMask(6, 0b011, 3), hbMask(7, 0b100, 2)}
	// one member that differs from member 0 only in mutation numbers (small distance)
	f[5].Genes[0].Mut += 0.375
	if n > len(f) {
		// thorough: every subset of the three hidden nodes, half of them with a second weight setting
		f = nil
		for mask := uint(0); mask < 8; mask++ {
			f = append(f, hbMask(len(f), mask, 0))
			if mask%2 == 0 {
				f = append(f, hbMask(len(f), mask, 3))
			}
		}
		f[1].Genes[0].Mut += 0.375
		return f
	}
	return f[:n]
}

var c08Thresholds = []float64{0.3, 1, 2.5, 3, 100}

// (excess, disjoint, mutdiff) coefficient rows
var c08Coefs = [][3]float64{{1, 1, 1}, {1, 0.5, 1}, {0.5, 1, 0.4}}

// specModel is the reference: a list of species, each a list.
type specModel struct {
	ids     []int
	members [][]*genetics.Organism
	maxID   int
}

// c08Follow checks the library's placement of the batch (in arrival order) against the
// reference and returns "" or the first discrepancy. before: species present before the call.
func c08Follow(m *specModel, batch []*genetics.Organism, opts *neat.Options, pop *genetics.Population) string {
	for bi, o := range batch {
		best := 0.0
		var cands []int
		for si := range m.ids {
			rep := m.members[si][0]
			d := o.Genotype.VCompatibility(rep.Genotype, opts)
			// the distance speciation works with must be the compatibility formula's (set arithmetic
			// on the two gene lists); a deviation puts organisms into the wrong species
			if len(o.Genotype.Genes) > 0 && len(rep.Genotype.Genes) > 0 && genesSorted(o.Genotype) && genesSorted(rep.Genotype) {
				e, dj, w := c07Ref(o.Genotype, rep.Genotype)
				f := opts.ExcessCoeff*float64(e) + opts.DisjointCoeff*float64(dj) + opts.MutdiffCoeff*w
				if diff := d - f; diff > 1e-9*(1+f) || diff < -1e-9*(1+f) || d != d {
					return fmt.Sprintf("organism #%d of the batch is measured at distance %g from the representative of species %d; the compatibility formula gives %g (E=%d D=%d W=%g)", bi, d, m.ids[si], f, e, dj, w)
				}
			}
			if d < opts.CompatThreshold {
				if len(cands) == 0 || d < best {
					best, cands = d, []int{si}
				} else if d == best {
					cands = append(cands, si)
				}
			}
		}
		if o.Species == nil {
			return fmt.Sprintf("organism #%d of the batch was not assigned to a species", bi)
		}
		got := o.Species.Id
		if len(cands) > 0 {
			ok := false
			for _, si := range cands {
				if m.ids[si] == got {
					m.members[si] = append(m.members[si], o)
					ok = true
					break
				}
			}
			if !ok {
				return fmt.Sprintf("organism #%d of the batch was put in species %d; the closest representative below the threshold %g (distance %g) is that of species %d",
					bi, got, opts.CompatThreshold, best, m.ids[cands[0]])
			}
		} else {
			for _, id := range m.ids {
				if id == got {
					return fmt.Sprintf("organism #%d of the batch was put in existing species %d although no representative is closer than the threshold %g", bi, got, opts.CompatThreshold)
				}
			}
			if got <= m.maxID {
				return fmt.Sprintf("organism #%d of the batch founded a species with id %d, which does not exceed every id issued before (%d)", bi, got, m.maxID)
			}
			m.ids = append(m.ids, got)
			m.members = append(m.members, []*genetics.Organism{o})
			m.maxID = got
		}
	}
	// the population's species lists must be exactly the model's
	if len(pop.Species) != len(m.ids) {
		return fmt.Sprintf("population has %d species, the reference %d", len(pop.Species), len(m.ids))
	}
	for si, s := range pop.Species {
		if s.Id != m.ids[si] {
			return fmt.Sprintf("species #%d has id %d, the reference %d", si, s.Id, m.ids[si])
		}
		if len(s.Organisms) != len(m.members[si]) {
			return fmt.Sprintf("species %d lists %d organisms, the reference %d", s.Id, len(s.Organisms), len(m.members[si]))
		}
		for oi, o := range s.Organisms {
			if o != m.members[si][oi] {
				return fmt.Sprintf("species %d: organism at position %d differs from the reference (order of arrival)", s.Id, oi)
			}
			if o.Species != s {
				return fmt.Sprintf("species %d lists an organism whose back pointer names another species", s.Id)
			}
		}
	}
	if pop.LastSpecies < m.maxID {
		return fmt.Sprintf("highest issued species id is recorded as %d although id %d exists", pop.LastSpecies, m.maxID)
	}
	return ""
}

func genesSorted(g *genetics.Genome) bool {
	for i := 1; i < len(g.Genes); i++ {
		if g.Genes[i-1].InnovationNum >= g.Genes[i].InnovationNum {
			return false
		}
	}
	return true
}

func modelOf(pop *genetics.Population) *specModel {
	m := &specModel{maxID: pop.LastSpecies}
	for _, s := range pop.Species {
		m.ids = append(m.ids, s.Id)
		m.members = append(m.members, append([]*genetics.Organism(nil), s.Organisms...))
		if s.Id > m.maxID {
			m.maxID = s.Id
		}
	}
	return m
}

type c08Case struct {
	Existing [][]int `json:"existing"` // species -> family member indices
	IDs      []int   `json:"ids"`      // ids of the existing species
	Last     int     `json:"last"`     // highest id issued before
	Batch    []int   `json:"batch"`
	Thr      int     `json:"thr"`
	Fast     bool    `json:"fast"`
	Coef     int     `json:"coef"`
	Thr2     int     `json:"thr2"` // -1: one call; else the second half of the batch is speciated after the options' threshold was changed to this
	Fam      int     `json:"family_size"`
}

func c08Run(cs *c08Case) string {
	fam := c08Family(cs.Fam)
	opts := baseOptions()
	opts.CompatThreshold = c08Thresholds[cs.Thr]
	opts.ExcessCoeff, opts.DisjointCoeff, opts.MutdiffCoeff = c08Coefs[cs.Coef][0], c08Coefs[cs.Coef][1], c08Coefs[cs.Coef][2]
	if cs.Fast {
		opts.GenCompatMethod = neat.GenomeCompatibilityMethodFast
	}
	pop := genetics.VNewEmptyPopulation()
	gid := 0
	mk := func(mi int) *genetics.Organism {
		g := fam[mi].Build()
		g.Id = gid
		gid++
		o, _ := genetics.NewOrganism(float64(gid), g, 1)
		return o
	}
	for si, mem := range cs.Existing {
		s := genetics.NewSpecies(cs.IDs[si])
		for _, mi := range mem {
			o := mk(mi)
			o.Species = s
			s.VAddOrganism(o)
			pop.Organisms = append(pop.Organisms, o)
		}
		pop.Species = append(pop.Species, s)
	}
	pop.LastSpecies = cs.Last
	var batch []*genetics.Organism
	for _, mi := range cs.Batch {
		batch = append(batch, mk(mi))
	}
	m := modelOf(pop)
	var err error
	speciate := func(b []*genetics.Organism) {
		defer func() {
			if r := recover(); r != nil {
				err = fmt.Errorf("panic: %v", r)
			}
		}()
		err = pop.VSpeciate(opts.NeatContext(), b)
	}
	if cs.Thr2 < 0 || len(batch) < 2 {
		speciate(batch)
		if err != nil {
			return "speciate failed: " + err.Error()
		}
		return c08Follow(m, batch, opts, pop)
	}
	// two calls; the caller changes the threshold in the options in between (as a dynamic-threshold
	// scheme does): the threshold in force is the one in the options at the time of the call
	h := len(batch) / 2
	speciate(batch[:h])
	if err != nil {
		return "speciate failed: " + err.Error()
	}
	if msg := c08Follow(m, batch[:h], opts, pop); msg != "" {
		return msg
	}
	opts.CompatThreshold = c08Thresholds[cs.Thr2]
	speciate(batch[h:])
	if err != nil {
		return "speciate (second call) failed: " + err.Error()
	}
	if msg := c08Follow(m, batch[h:], opts, pop); msg != "" {
		return fmt.Sprintf("after the options' threshold was changed from %g to %g: %s", c08Thresholds[cs.Thr], opts.CompatThreshold, msg)
	}
	return ""
}

func permutationsUpTo(items []int, maxLen int) [][]int {
	var out [][]int
	var rec func(cur []int, used uint)
	rec = func(cur []int, used uint) {
		if len(cur) > 0 {
			out = append(out, append([]int(nil), cur...))
		}
		if len(cur) == maxLen {
			return
		}
		for i, it := range items {
			if used&(1<<uint(i)) == 0 {
				rec(append(cur, it), used|1<<uint(i))
			}
		}
	}
	rec(nil, 0)
	return out
}

func c08Existing(fam, maxMembers int) (exs [][][]int) {
	all := make([]int, fam)
	for i := range all {
		all[i] = i
	}
	exs = append(exs, nil)
	for _, t := range permutationsUpTo(all, maxMembers) {
		switch len(t) {
		case 1:
			exs = append(exs, [][]int{{t[0]}})
		case 2:
			exs = append(exs, [][]int{{t[0]}, {t[1]}}, [][]int{{t[0], t[1]}})
		case 3:
			exs = append(exs, [][]int{{t[0]}, {t[1]}, {t[2]}}, [][]int{{t[0], t[1]}, {t[2]}}, [][]int{{t[0]}, {t[1], t[2]}}, [][]int{{t[0], t[1], t[2]}})
		}
	}
	return
}

func runC08(c *Ctx) {
	fam, maxEx, maxBatch := 8, 2, 3
	if !c.Quick() {
		fam, maxEx, maxBatch = 12, 2, 3
	}
	exs := c08Existing(fam, maxEx)
	c.Extra["family_size"] = fam
	c.Extra["existing_populations"] = len(exs)
	var cases, placed int64
	parFor(len(exs), func(ei int) {
		if c.Expired() {
			c.MarkCapped("deadline reached before all existing populations were enumerated")
			return
		}
		ex := exs[ei]
		used := map[int]bool{}
		for _, s := range ex {
			for _, m := range s {
				used[m] = true
			}
		}
		var rest []int
		for i := 0; i < fam; i++ {
			if !used[i] {
				rest = append(rest, i)
			}
		}
		// two id layouts: contiguous from 1, and sparse ids with a higher high-water mark
		layouts := [][2]interface{}{}
		ids1, ids2 := []int{}, []int{}
		for i := range ex {
			ids1 = append(ids1, i+1)
			ids2 = append(ids2, 3+4*i)
		}
		layouts = append(layouts, [2]interface{}{ids1, len(ex)}, [2]interface{}{ids2, 3 + 4*len(ex) + 2})
		var n, p int64
		for _, b := range permutationsUpTo(rest, maxBatch) {
			// batches may also contain a second copy of their first member (distance 0 to it)
			bs := [][]int{b}
			if len(b) < maxBatch {
				bs = append(bs, append(append([]int(nil), b...), b[0]))
			}
			for _, batch := range bs {
				for ti := range c08Thresholds {
					for _, fast := range []bool{false, true} {
						for li, lay := range layouts {
							cs := &c08Case{Existing: ex, IDs: lay[0].([]int), Last: lay[1].(int), Batch: batch, Thr: ti, Fast: fast, Fam: fam, Coef: (ti + li + len(batch)) % len(c08Coefs), Thr2: -1}
							if len(batch) >= 2 && li == 0 {
								// the same batch in two calls with another threshold for the second
								cs2 := *cs
								cs2.Thr2 = (ti + 1 + len(batch)) % len(c08Thresholds)
								n++
								p += int64(len(batch))
								if msg := c08Run(&cs2); msg != "" {
									params := map[string]interface{}{}
									js, _ := jsonMarshal(&cs2)
									_ = jsonUnmarshal(js, &params)
									c.ViolateOrd("C08/placement-after-threshold-change", int64(len(batch)*1000+len(ex)*100+ti), fmt.Sprintf("%s [existing species (family members) %v with ids %v, batch %v in two calls, fast=%v]", msg, ex, cs.IDs, batch, fast),
										&Replay{Scenario: "batch", Params: params, Clause: msg})
								}
							}
							n++
							p += int64(len(batch))
							if msg := c08Run(cs); msg != "" {
								params := map[string]interface{}{}
								js, _ := jsonMarshal(cs)
								_ = jsonUnmarshal(js, &params)
								c.ViolateOrd("C08/placement", int64(len(batch)*1000+len(ex)*100+ti), fmt.Sprintf("%s [existing species (family members) %v with ids %v, batch %v, threshold %g, fast=%v]", msg, ex, cs.IDs, batch, c08Thresholds[ti], fast),
									&Replay{Scenario: "batch", Params: params, Clause: msg})
							}
						}
					}
				}
			}
		}
		c.mu.Lock()
		cases += n
		placed += p
		c.mu.Unlock()
		c.Distinct(uint64(ei))
	})
	c.Evaluations += cases
	c.Transitions += placed
	c.Traces += cases
	c.Count("speciate_calls", cases)
	c.Count("organisms_placed", placed)
	c.Sample(map[string]interface{}{"existing": [][]int{{0, 1}, {3}}, "batch": []int{2, 4, 2}, "threshold": 2.5, "family": []string{c08Family(6)[0].Short(), c08Family(6)[3].Short()}})
	// (b) epochs and constructors
	seeds := []string{"xor", "evolved", "disc", "rand", "read", "hb4"}
	modes := []string{"perspecies"}
	fits := []int{0, 2, 5, 6}
	pl := epochPlan{prop: "C08", oracles: oSpeciate, maxDev: 1}
	if c.Quick() {
		pl.scenarios = buildScenarios(quickCfgRows, []string{"M", "A", "R1", "R2"}, seeds, modes, fits, false)
	} else {
		pl.scenarios = buildScenarios(len(cfgRows), allPolicies, seeds, modes, fits, false)
		pl.deepScenarios = deepScenarios(seeds, modes, fits)
		pl.deepDev, pl.shards = 2, 16
	}
	// a stagnating population whose species hold members resembling another species (delta coding leaves the species
	// below the top two in place with quota 0 while babies nearest to them arrive)
	for _, cfg := range []int{3, 0} {
		for _, fit := range []int{2, 5} {
			for _, pol := range []string{"M", "A"} {
				pl.scenarios = append(pl.scenarios, EpochScenario{Seed: "hbx", Cfg: cfg, Fit: fit, Policy: pol, Mode: "perspecies", Epochs: 3})
			}
		}
	}
	// the same population under a tight threshold (0.3) and answer policies that really move weights: the weight-mutated
	// clones of a super champion (delta coding) lie beyond the threshold of their mother's species
	for _, cfg := range []int{1, 8} {
		for i, pol := range []string{"A", "R1", "R2", "H"} {
			pl.scenarios = append(pl.scenarios, EpochScenario{Seed: "hbx", Cfg: cfg, Fit: []int{2, 5, 6, 2}[i], Policy: pol, Mode: []string{"perspecies", "whole"}[i%2], Epochs: 3})
		}
	}
	runEpochPlan(c, pl)
	c.States = int64(len(c.distinct))
	c.Rule = fmt.Sprintf("(a) family of %d structurally different genomes; existing populations = every way to pre-speciate an ordered choice of up to %d members (singleton and shared species), under two id layouts (contiguous; sparse with a higher high-water mark); batches = every ordered arrangement of up to %d further members (plus a repeated member); thresholds %v (and the same batch in two calls with the options' threshold changed in between); both distance methods; three coefficient rows (rotated); the real speciate is followed organism by organism by a list-of-lists reference using the library's distance (any minimiser accepted on ties), final species lists compared. (b) the same lock-step reference on the babies of every epoch of E1 multi-epoch runs (species-wise driving, all executions within max_deviations of the base policies) and on the populations built by NewPopulation / NewPopulationRandom / ReadPopulation. states = distinct existing populations + distinct run end states, transitions = organisms placed + populations produced", fam, maxEx, maxBatch, c08Thresholds)
	c.Assume("placement is judged with the library's own distance value (so that ties and the threshold are compared on the very same number); that value is additionally compared with the set-arithmetic formula of C07 for every organism/representative pair")
	c.Assume("Go toolchain, go build -overlay, the instrumenter and the accessor file are trusted")
}

func replayC08(c *Ctx, rp *Replay) (bool, string) {
	if rp.Scenario == "epochs" {
		return replayEpochs("C08", oSpeciate)(c, rp)
	}
	var cs c08Case
	js, _ := jsonMarshal(rp.Params)
	_ = jsonUnmarshal(js, &cs)
	if msg := c08Run(&cs); msg != "" {
		return true, msg
	}
	return false, fmt.Sprintf("existing %v batch %v", cs.Existing, cs.Batch)
}

var _ context.Context
