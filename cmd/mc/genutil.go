package main

import (
	"context"
	"encoding/json"
	"fmt"
	"math"
	"sort"
	"strings"

	"github.com/yaricom/goNEAT/v4/neat"
	"github.com/yaricom/goNEAT/v4/neat/genetics"
	neatmath "github.com/yaricom/goNEAT/v4/neat/math"
	"github.com/yaricom/goNEAT/v4/neat/network"
)

// ---------------------------------------------------------------------------
// pointer-free genome descriptions (snapshots) and builders

type TraitSpec struct {
	ID     int       `json:"id"`
	Params []float64 `json:"params"`
}

type NodeSpec struct {
	ID    int                         `json:"id"`
	Role  network.NodeNeuronType      `json:"role"`
	Act   neatmath.NodeActivationType `json:"act"`
	Trait int                         `json:"trait"` // 0 = nil
}

type GeneSpec struct {
	In    int     `json:"in"`
	Out   int     `json:"out"`
	W     float64 `json:"w"`
	Rec   bool    `json:"rec"`
	Innov int64   `json:"innov"`
	Mut   float64 `json:"mut"`
	En    bool    `json:"en"`
	Trait int     `json:"trait"` // 0 = nil
}

type ModuleSpec struct {
	Innov   int64                       `json:"innov"`
	Mut     float64                     `json:"mut"`
	En      bool                        `json:"en"`
	NodeID  int                         `json:"node"`
	Act     neatmath.NodeActivationType `json:"act"`
	Trait   int                         `json:"trait"`
	Inputs  []int                       `json:"inputs"`
	Outputs []int                       `json:"outputs"`
	InW     []float64                   `json:"in_w"`
	OutW    []float64                   `json:"out_w"`
}

type GenomeSpec struct {
	ID      int          `json:"id"`
	Traits  []TraitSpec  `json:"traits"`
	Nodes   []NodeSpec   `json:"nodes"`
	Genes   []GeneSpec   `json:"genes"`
	Modules []ModuleSpec `json:"modules,omitempty"`
}

func traitByID(ts []*neat.Trait, id int) *neat.Trait {
	if id == 0 {
		return nil
	}
	for _, t := range ts {
		if t.Id == id {
			return t
		}
	}
	return nil
}

// Build constructs a fresh genome with the public constructors only
// (deliberately not with the library's duplicate, which is itself under test).
func (s *GenomeSpec) Build() *genetics.Genome {
	traits := make([]*neat.Trait, len(s.Traits))
	for i, t := range s.Traits {
		nt := neat.NewTrait()
		nt.Id = t.ID
		nt.Params = append([]float64(nil), t.Params...)
		traits[i] = nt
	}
	nodes := make([]*network.NNode, len(s.Nodes))
	byID := map[int]*network.NNode{}
	for i, n := range s.Nodes {
		nn := network.NewNNode(n.ID, n.Role)
		nn.ActivationType = n.Act
		nn.Trait = traitByID(traits, n.Trait)
		nodes[i] = nn
		byID[n.ID] = nn
	}
	genes := make([]*genetics.Gene, len(s.Genes))
	for i, g := range s.Genes {
		var gn *genetics.Gene
		if g.Trait == 0 {
			gn = genetics.NewGene(g.W, byID[g.In], byID[g.Out], g.Rec, g.Innov, g.Mut) // as the plain reader does for trait id 0
		} else {
			gn = genetics.NewGeneWithTrait(traitByID(traits, g.Trait), g.W, byID[g.In], byID[g.Out], g.Rec, g.Innov, g.Mut)
		}
		// the snapshot is authoritative whatever a constructor normalises
		gn.IsEnabled, gn.Link.IsRecurrent, gn.Link.ConnectionWeight, gn.MutationNum, gn.InnovationNum = g.En, g.Rec, g.W, g.Mut, g.Innov
		genes[i] = gn
	}
	if len(s.Modules) == 0 {
		return genetics.NewGenome(s.ID, traits, nodes, genes)
	}
	mods := make([]*genetics.MIMOControlGene, len(s.Modules))
	for i, m := range s.Modules {
		cn := network.NewNNode(m.NodeID, network.HiddenNeuron)
		cn.ActivationType = m.Act
		cn.Trait = traitByID(traits, m.Trait)
		for j, in := range m.Inputs {
			w := 1.0
			if j < len(m.InW) {
				w = m.InW[j]
			}
			cn.AddIncoming(byID[in], w)
		}
		for j, out := range m.Outputs {
			w := 1.0
			if j < len(m.OutW) {
				w = m.OutW[j]
			}
			cn.AddOutgoing(byID[out], w)
		}
		mods[i] = genetics.NewMIMOGene(cn, m.Innov, m.Mut, m.En)
	}
	return genetics.NewModularGenome(s.ID, traits, nodes, genes, mods)
}

func traitID(t *neat.Trait) int {
	if t == nil {
		return 0
	}
	return t.Id
}

// SpecOf takes a deep, pointer-free snapshot of a genome.
func SpecOf(g *genetics.Genome) *GenomeSpec {
	s := &GenomeSpec{ID: g.Id}
	for _, t := range g.Traits {
		s.Traits = append(s.Traits, TraitSpec{ID: t.Id, Params: append([]float64(nil), t.Params...)})
	}
	for _, n := range g.Nodes {
		s.Nodes = append(s.Nodes, NodeSpec{ID: n.Id, Role: n.NeuronType, Act: n.ActivationType, Trait: traitID(n.Trait)})
	}
	for _, gn := range g.Genes {
		gs := GeneSpec{W: gn.Link.ConnectionWeight, Rec: gn.Link.IsRecurrent, Innov: gn.InnovationNum, Mut: gn.MutationNum,
			En: gn.IsEnabled, Trait: traitID(gn.Link.Trait), In: -1, Out: -1}
		if gn.Link.InNode != nil {
			gs.In = gn.Link.InNode.Id
		}
		if gn.Link.OutNode != nil {
			gs.Out = gn.Link.OutNode.Id
		}
		s.Genes = append(s.Genes, gs)
	}
	for _, cg := range g.ControlGenes {
		m := ModuleSpec{Innov: cg.InnovationNum, Mut: cg.MutationNum, En: cg.IsEnabled, NodeID: cg.ControlNode.Id,
			Act: cg.ControlNode.ActivationType, Trait: traitID(cg.ControlNode.Trait)}
		for _, l := range cg.ControlNode.Incoming {
			m.Inputs = append(m.Inputs, l.InNode.Id)
			m.InW = append(m.InW, l.ConnectionWeight)
		}
		for _, l := range cg.ControlNode.Outgoing {
			m.Outputs = append(m.Outputs, l.OutNode.Id)
			m.OutW = append(m.OutW, l.ConnectionWeight)
		}
		s.Modules = append(s.Modules, m)
	}
	return s
}

func fb(f float64) string { return fmt.Sprintf("%016x", math.Float64bits(f)) }

// Key is an exact (bit for bit) textual form of the genetic content; the genome id is not part of it.
func (s *GenomeSpec) Key() string {
	var b strings.Builder
	for _, t := range s.Traits {
		fmt.Fprintf(&b, "T%d(", t.ID)
		for _, p := range t.Params {
			b.WriteString(fb(p))
			b.WriteByte(',')
		}
		b.WriteString(")")
	}
	b.WriteByte('|')
	for _, n := range s.Nodes {
		fmt.Fprintf(&b, "N%d:%d:%d:%d;", n.ID, n.Role, n.Act, n.Trait)
	}
	b.WriteByte('|')
	for _, g := range s.Genes {
		fmt.Fprintf(&b, "G%d:%d>%d:%s:%v:%s:%v:%d;", g.Innov, g.In, g.Out, fb(g.W), g.Rec, fb(g.Mut), g.En, g.Trait)
	}
	if len(s.Modules) > 0 {
		b.WriteByte('|')
		for _, m := range s.Modules {
			fmt.Fprintf(&b, "M%d:%s:%v:%d:%d:%d:%v:%v:", m.Innov, fb(m.Mut), m.En, m.NodeID, m.Act, m.Trait, m.Inputs, m.Outputs)
			for _, w := range m.InW {
				b.WriteString(fb(w))
			}
			b.WriteByte('/')
			for _, w := range m.OutW {
				b.WriteString(fb(w))
			}
			b.WriteByte(';')
		}
	}
	return b.String()
}

// StructKey is the canonical structural key used to deduplicate GenomeSpace
// states. Dropped: exact weights, mutation numbers and trait parameters, and WHICH
// trait a node or gene points to (only whether it has one). Argument that merged
// states have the same structural futures: no operator branches on a weight, a
// mutation number or a trait parameter (the only value test is the clamp
// `Params[i] < 0 -> 0` inside Trait.Mutate), and a trait reference is only ever
// copied or re-pointed, a nil one being the single case that is treated specially
// (index 0 in crossover). Oracles that talk about weights or traits run on the
// concrete representative of every transition before deduplication.
func (s *GenomeSpec) StructKey() string {
	var b strings.Builder
	nz := func(t int) byte {
		if t == 0 {
			return '0'
		}
		return 't'
	}
	fmt.Fprintf(&b, "t%d|", len(s.Traits))
	for _, n := range s.Nodes {
		fmt.Fprintf(&b, "N%d:%d:%d:%c;", n.ID, n.Role, n.Act, nz(n.Trait))
	}
	b.WriteByte('|')
	for _, g := range s.Genes {
		fmt.Fprintf(&b, "G%d:%d>%d:%v:%v:%c;", g.Innov, g.In, g.Out, g.Rec, g.En, nz(g.Trait))
	}
	return b.String()
}

// Short is a compact human-readable rendering for samples and traces.
func (s *GenomeSpec) Short() string {
	var b strings.Builder
	b.WriteString("nodes[")
	for i, n := range s.Nodes {
		if i > 0 {
			b.WriteByte(' ')
		}
		fmt.Fprintf(&b, "%d%s", n.ID, roleLetter(n.Role))
	}
	b.WriteString("] genes[")
	for i, g := range s.Genes {
		if i > 0 {
			b.WriteByte(' ')
		}
		fl := ""
		if !g.En {
			fl += "d"
		}
		if g.Rec {
			fl += "r"
		}
		fmt.Fprintf(&b, "#%d:%d>%d%s w=%g", g.Innov, g.In, g.Out, fl, g.W)
	}
	b.WriteString("]")
	return b.String()
}

func roleLetter(r network.NodeNeuronType) string {
	switch r {
	case network.InputNeuron:
		return "i"
	case network.BiasNeuron:
		return "b"
	case network.OutputNeuron:
		return "o"
	}
	return "h"
}

// geneticEqual compares two genomes field by field in every genetic respect but the id.
func geneticEqual(a, b *genetics.Genome) (bool, string) {
	ka, kb := SpecOf(a).Key(), SpecOf(b).Key()
	if ka == kb {
		return true, ""
	}
	return false, diffKeys(ka, kb)
}

func diffKeys(ka, kb string) string {
	pa, pb := strings.FieldsFunc(ka, func(r rune) bool { return r == ';' || r == '|' }), strings.FieldsFunc(kb, func(r rune) bool { return r == ';' || r == '|' })
	for i := 0; i < len(pa) || i < len(pb); i++ {
		var x, y string
		if i < len(pa) {
			x = pa[i]
		}
		if i < len(pb) {
			y = pb[i]
		}
		if x != y {
			return fmt.Sprintf("first difference at element %d: %q vs %q", i, x, y)
		}
	}
	return "keys differ"
}

// ---------------------------------------------------------------------------
// the C01 predicate

// wellFormed returns "" if g satisfies the well-formedness predicate of C01,
// else a description of the first broken clause.
func wellFormed(g *genetics.Genome) string {
	// nodes: strictly ascending unique ids; lookup by id returns the node
	for i, n := range g.Nodes {
		if n == nil {
			return fmt.Sprintf("nil node at %d", i)
		}
		if i > 0 && g.Nodes[i-1].Id >= n.Id {
			return fmt.Sprintf("node ids not strictly ascending at index %d (%d then %d)", i, g.Nodes[i-1].Id, n.Id)
		}
		if g.NodeWithId(n.Id) != n {
			return fmt.Sprintf("NodeWithId(%d) does not return the genome's node", n.Id)
		}
		if n.Trait != nil && !ownsTrait(g, n.Trait) {
			return fmt.Sprintf("node %d references a trait that is not the genome's own", n.Id)
		}
	}
	type lk struct {
		in, out int
		rec     bool
	}
	seen := map[lk]int64{}
	for i, gn := range g.Genes {
		if gn == nil || gn.Link == nil {
			return fmt.Sprintf("nil gene at %d", i)
		}
		if i > 0 && g.Genes[i-1].InnovationNum >= gn.InnovationNum {
			return fmt.Sprintf("innovation numbers not strictly ascending at gene index %d (%d then %d)", i, g.Genes[i-1].InnovationNum, gn.InnovationNum)
		}
		in, out := gn.Link.InNode, gn.Link.OutNode
		if in == nil || out == nil {
			return fmt.Sprintf("gene #%d has a nil endpoint", gn.InnovationNum)
		}
		if g.NodeWithId(in.Id) != in || !ownsNode(g, in) {
			return fmt.Sprintf("gene #%d source %d is not one of the genome's own nodes", gn.InnovationNum, in.Id)
		}
		if g.NodeWithId(out.Id) != out || !ownsNode(g, out) {
			return fmt.Sprintf("gene #%d target %d is not one of the genome's own nodes", gn.InnovationNum, out.Id)
		}
		if out.IsSensor() {
			return fmt.Sprintf("gene #%d ends in sensor node %d", gn.InnovationNum, out.Id)
		}
		k := lk{in.Id, out.Id, gn.Link.IsRecurrent}
		if prev, dup := seen[k]; dup {
			return fmt.Sprintf("genes #%d and #%d join the same ordered node pair %d->%d with the same recurrence flag", prev, gn.InnovationNum, in.Id, out.Id)
		}
		seen[k] = gn.InnovationNum
		if gn.Link.Trait != nil && !ownsTrait(g, gn.Link.Trait) {
			return fmt.Sprintf("gene #%d references a trait that is not the genome's own", gn.InnovationNum)
		}
	}
	if g.VNodeMapLen() != len(g.Nodes) {
		return fmt.Sprintf("id lookup table has %d entries for %d nodes", g.VNodeMapLen(), len(g.Nodes))
	}
	if len(g.Genes) > 0 {
		if _, err := g.Genesis(g.Id); err != nil {
			return "Genesis failed: " + err.Error()
		}
	}
	return ""
}

func ownsNode(g *genetics.Genome, n *network.NNode) bool {
	// binary search by id (nodes verified ascending before genes are examined)
	i := sort.Search(len(g.Nodes), func(i int) bool { return g.Nodes[i].Id >= n.Id })
	return i < len(g.Nodes) && g.Nodes[i] == n
}

func ownsTrait(g *genetics.Genome, t *neat.Trait) bool {
	for _, x := range g.Traits {
		if x == t {
			return true
		}
	}
	return false
}

// ioNodes lists (id, role) of input, bias and output nodes.
func ioNodes(s *GenomeSpec) map[int]network.NodeNeuronType {
	m := map[int]network.NodeNeuronType{}
	for _, n := range s.Nodes {
		if n.Role != network.HiddenNeuron {
			m[n.ID] = n.Role
		}
	}
	return m
}

// retainsIO checks that child keeps every I/B/O node of the ancestor with its role.
func retainsIO(anc, child *GenomeSpec) string {
	cm := map[int]network.NodeNeuronType{}
	for _, n := range child.Nodes {
		cm[n.ID] = n.Role
	}
	for id, role := range ioNodes(anc) {
		r, ok := cm[id]
		if !ok {
			return fmt.Sprintf("ancestor's %s node %d is missing", roleLetter(role), id)
		}
		if r != role {
			return fmt.Sprintf("node %d changed role %s -> %s", id, roleLetter(role), roleLetter(r))
		}
	}
	return ""
}

// ---------------------------------------------------------------------------
// options

// baseOptions returns a complete, valid option set (XOR-like defaults).
// decoyOptions: settings no scenario uses. Every options object of the harness is a by-value copy
// of a decoy that has already been used (its context was requested), and contexts may be nested in a
// parent context that carries a decoy: anything the library remembers about an Options value or a
// context instead of reading the options it is handed shows up as the decoy's behaviour.
func decoyOptions() *neat.Options {
	return &neat.Options{
		TraitParamMutProb: 0.9, TraitMutationPower: 3.0, WeightMutPower: 0.1,
		DisjointCoeff: 0.1, ExcessCoeff: 7.0, MutdiffCoeff: 3.0, CompatThreshold: 1e-9,
		AgeSignificance: 2.0, SurvivalThresh: 0.9,
		MutateOnlyProb: 0.9, MutateAddNodeProb: 0.9, MutateAddLinkProb: 0.9, MateOnlyProb: 0.9,
		PopSize: 3, DropOffAge: 2, NewLinkTries: 1, PrintEvery: 1000, BabiesStolen: 1, NumRuns: 7, NumGenerations: 9,
		EpochExecutorType: neat.EpochExecutorTypeParallel, GenCompatMethod: neat.GenomeCompatibilityMethodFast,
		NodeActivators: []neatmath.NodeActivationType{neatmath.TanhActivation}, NodeActivatorsProb: []float64{1.0},
		LogLevel: "error",
	}
}

func baseOptions() *neat.Options {
	used := decoyOptions()
	_ = used.NeatContext()
	cp := *used // a by-value copy of an options value that has been used before
	o := &cp
	o.TraitParamMutProb, o.TraitMutationPower, o.WeightMutPower = 0.5, 1.0, 2.5
	o.DisjointCoeff, o.ExcessCoeff, o.MutdiffCoeff, o.CompatThreshold = 1.0, 1.0, 0.4, 3.0
	o.AgeSignificance, o.SurvivalThresh = 1.0, 0.2
	o.MutateOnlyProb, o.MutateRandomTraitProb, o.MutateLinkTraitProb, o.MutateNodeTraitProb = 0.25, 0.1, 0.1, 0.1
	o.MutateLinkWeightsProb, o.MutateToggleEnableProb, o.MutateGeneReenableProb = 0.9, 0.0, 0.0
	o.MutateAddNodeProb, o.MutateAddLinkProb, o.MutateConnectSensors = 0.03, 0.08, 0.5
	o.InterspeciesMateRate, o.MateMultipointProb, o.MateMultipointAvgProb, o.MateSinglepointProb = 0.001, 0.3, 0.3, 0.3
	o.MateOnlyProb, o.RecurOnlyProb = 0.2, 0.0
	o.PopSize, o.DropOffAge, o.NewLinkTries, o.PrintEvery, o.BabiesStolen, o.NumRuns, o.NumGenerations = 6, 15, 20, 1000, 0, 1, 3
	o.EpochExecutorType, o.GenCompatMethod = neat.EpochExecutorTypeSequential, neat.GenomeCompatibilityMethodLinear
	o.NodeActivators, o.NodeActivatorsProb = []neatmath.NodeActivationType{neatmath.SigmoidSteepenedActivation}, []float64{1.0}
	o.LogLevel = "error"
	return o
}

// nestedCtx carries opts inside a parent context that already carries (decoy) options.
func nestedCtx(opts *neat.Options) context.Context {
	return neat.NewContext(neat.NewContext(context.Background(), decoyOptions()), opts)
}

// ---------------------------------------------------------------------------
// seed genomes

func params8(v float64) []float64 {
	p := make([]float64, 8)
	for i := range p {
		p[i] = v * float64(i+1) / 8
	}
	return p
}

// xorSeed is the shipped XOR start genome (data/xorstartgenes): 3 traits, inputs 2,3, bias 1, output 4.
func xorSeed() *GenomeSpec {
	return &GenomeSpec{ID: 1,
		Traits: []TraitSpec{{1, params8(0.1)}, {2, params8(0.2)}, {3, params8(0.3)}},
		Nodes: []NodeSpec{{1, network.BiasNeuron, neatmath.NullActivation, 0}, {2, network.InputNeuron, neatmath.NullActivation, 0},
			{3, network.InputNeuron, neatmath.NullActivation, 0}, {4, network.OutputNeuron, neatmath.SigmoidSteepenedActivation, 0}},
		Genes: []GeneSpec{{In: 1, Out: 4, W: 0, Innov: 1, Mut: 0, En: true, Trait: 1}, {In: 2, Out: 4, W: 0, Innov: 2, Mut: 0, En: true, Trait: 2},
			{In: 3, Out: 4, W: 0, Innov: 3, Mut: 0, En: true, Trait: 3}},
	}
}

// evolvedSeed is a hand-built "evolved" genome: hidden nodes, one disabled
// gene, one recurrent self-loop, one nil trait, distinct hard-float weights.
func evolvedSeed() *GenomeSpec {
	return &GenomeSpec{ID: 7,
		Traits: []TraitSpec{{1, params8(0.1)}, {2, params8(1.5)}},
		Nodes: []NodeSpec{{1, network.BiasNeuron, neatmath.NullActivation, 1}, {2, network.InputNeuron, neatmath.NullActivation, 1},
			{3, network.InputNeuron, neatmath.NullActivation, 0}, {4, network.OutputNeuron, neatmath.SigmoidSteepenedActivation, 2},
			{5, network.HiddenNeuron, neatmath.TanhActivation, 1}, {6, network.HiddenNeuron, neatmath.SigmoidSteepenedActivation, 2}},
		Genes: []GeneSpec{
			{In: 1, Out: 4, W: 0.1, Innov: 1, Mut: 0.1, En: true, Trait: 1},
			{In: 2, Out: 4, W: -2.5, Innov: 2, Mut: -2.5, En: false, Trait: 2},
			{In: 3, Out: 4, W: 1.0 / 3, Innov: 3, Mut: 1.0 / 3, En: true, Trait: 0},
			{In: 2, Out: 5, W: 1, Innov: 4, Mut: 0, En: true, Trait: 2},
			{In: 5, Out: 4, W: -2.5, Innov: 5, Mut: 0, En: true, Trait: 2},
			{In: 5, Out: 5, W: 0.30000000000000004, Rec: true, Innov: 6, Mut: 0.30000000000000004, En: true, Trait: 1},
			{In: 3, Out: 6, W: 123456789.125, Innov: 8, Mut: 1, En: true, Trait: 1},
			{In: 6, Out: 4, W: 1e-7, Innov: 9, Mut: 1e-7, En: true, Trait: 2},
		},
	}
}

// disconnectedSeed mirrors data/xordisconnectedstartgenes: input 3 has no gene.
func disconnectedSeed() *GenomeSpec {
	s := xorSeed()
	s.Genes = s.Genes[:2]
	return s
}

var hardFloats = []float64{0, 1, -1, 0.1, 1.0 / 3, -2.5, 1e-7, 0.30000000000000004, 123456789.125, 1e21, 1e-300, math.MaxFloat64, 5e-324}

func relClose(a, b, tol float64) bool {
	if a == b {
		return true
	}
	if math.IsNaN(a) || math.IsNaN(b) {
		return false
	}
	d := math.Abs(a - b)
	if d <= 1e-300 {
		return true
	}
	m := math.Max(math.Abs(a), math.Abs(b))
	return d <= tol*m
}

func jsonMarshal(v interface{}) ([]byte, error)   { return json.Marshal(v) }
func jsonUnmarshal(b []byte, v interface{}) error { return json.Unmarshal(b, v) }

// unsortedSeed: a genome whose nodes are NOT listed in ascending id order and whose genes are not in
// ascending innovation order (the constructors and both readers keep the given order). It is outside
// the C01 predicate, but duplication and the encodings are stated for every genome.
func unsortedSeed() *GenomeSpec {
	act := neatmath.SigmoidSteepenedActivation
	return &GenomeSpec{ID: 9,
		Traits: []TraitSpec{{1, params8(0.1)}, {3, params8(0.9)}, {2, params8(0.5)}},
		Nodes: []NodeSpec{{3, network.OutputNeuron, act, 3}, {1, network.InputNeuron, neatmath.NullActivation, 0}, {2, network.BiasNeuron, neatmath.NullActivation, 2},
			{5, network.HiddenNeuron, neatmath.TanhActivation, 3}, {4, network.InputNeuron, neatmath.NullActivation, 1}},
		Genes: []GeneSpec{
			{In: 4, Out: 5, W: 0.75, Innov: 4, Mut: 0.75, En: false, Trait: 3},
			{In: 5, Out: 3, W: -2.5, Innov: 3, Mut: 1, En: true, Trait: 0},
			{In: 1, Out: 5, W: 1.0 / 3, Innov: 1, Mut: 1.0 / 3, En: true, Trait: 2},
			{In: 2, Out: 3, W: 1e-7, Innov: 2, Mut: 0, En: true, Trait: 1}},
	}
}
