package main

// C10 — the champion of every sizeable species survives the epoch unchanged.

func init() {
	register("C10", "model_checking", runC10, replayEpochs("C10", oChamp))
}

func planC10(c *Ctx) epochPlan {
	seeds := []string{"evolved", "xor", "hbd1", "disc", "traits132", "hbd2", "rand", "hbd3", "hb5", "hb1"}
	modes := []string{"whole", "phase", "par"}
	fits := []int{6, 8, 2, 4, 5, 8, 3, 1}
	pl := epochPlan{prop: "C10", oracles: oChamp}
	if c.Quick() {
		pl.scenarios = buildScenarios(quickCfgRows, allPolicies, seeds, modes, fits, false)
		pl.maxDev = 1
	} else {
		pl.scenarios = buildScenarios(len(cfgRows), allPolicies, seeds, modes, fits, true)
		pl.maxDev = 1
		pl.deepScenarios = deepScenarios(seeds, modes, fits)
		pl.deepDev = 2
		pl.shards = 16
	}
	// dedicated scenario of the known finding (AgeSignificance 0: adjusted fitness collapses to 0)
	pl.scenarios = append(pl.scenarios, EpochScenario{Seed: "hbd3", Cfg: 31, Fit: 4, Policy: "R3", Mode: "whole", Epochs: 3})
	// a sizeable species whose champion lists its genes out of innovation order, both executors
	// (the parallel one sends every baby, the champion's clone included, through the plain encoding)
	for _, pol := range []string{"M", "A", "R1"} {
		for _, mode := range []string{"par", "whole"} {
			pl.scenarios = append(pl.scenarios, EpochScenario{Seed: "hbu", Cfg: 0, Fit: 4, Policy: pol, Mode: mode, Epochs: 2})
			// ... and whose champion holds a self-loop gene that is not flagged recurrent
			pl.scenarios = append(pl.scenarios, EpochScenario{Seed: "hbs", Cfg: 0, Fit: 4, Policy: pol, Mode: mode, Epochs: 2})
		}
		// exact zeros beside tiny positive fitness values: the fittest organism is the one with the tiny value
		pl.scenarios = append(pl.scenarios, EpochScenario{Seed: "hb1", Cfg: 0, Fit: 10, Policy: pol, Mode: "whole", Epochs: 3},
			EpochScenario{Seed: "hbd3", Cfg: 5, Fit: 10, Policy: pol, Mode: "phase", Epochs: 3})
	}
	return pl
}

func runC10(c *Ctx) {
	runEpochPlan(c, planC10(c))
	finishEpochEvidence(c, "E1 choice-tree exploration of multi-epoch runs (see C02); before every epoch the genome of each species' fittest organism(s) is snapshotted; after the epoch, for every species whose final quota (read from the old species object, i.e. after stealing / delta coding) exceeds five, some organism of the new generation must be genetically equal (traits, nodes, genes incl. weights, mutation numbers, recurrence and enabled flags; id ignored) to that champion. Start genomes include one with disabled and recurrent genes and a nil trait. states = distinct end-state hashes, transitions = populations produced")
}
