package main

import (
	"fmt"
	"sort"

	"gonum.org/v1/gonum/graph"

	"github.com/yaricom/goNEAT/v4/neat/genetics"
	"github.com/yaricom/goNEAT/v4/neat/network"
)

// C11 — a phenotype network expresses exactly the enabled part of its genome.
//
// E4: over two node layouts (sensors first; sensors with larger ids than neurons)
// every assignment {absent, enabled, disabled} to all candidate links
// (source x non-sensor target, incl. self-loops and output->hidden), a second pass
// with {non-recurrent, recurrent, both in parallel} variants, and modular genomes;
// for each expressed network ALL ordered pairs of ids are queried.

func init() { register("C11", "exploration", runC11, replayC11) }

type c11Layout struct {
	Name  string
	Nodes []NodeSpec
}

func c11Layouts() []c11Layout {
	act := xorSeed().Nodes[3].Act
	return []c11Layout{
		{"sensors-first", []NodeSpec{{1, network.BiasNeuron, 17, 1}, {2, network.InputNeuron, 17, 0}, {3, network.HiddenNeuron, 11, 1}, {4, network.OutputNeuron, act, 0}}},
		{"late-sensors", []NodeSpec{{1, network.InputNeuron, 17, 1}, {2, network.OutputNeuron, act, 0}, {3, network.HiddenNeuron, 14, 1}, {4, network.InputNeuron, 17, 0}, {5, network.BiasNeuron, 17, 1}}},
		{"two-outputs", []NodeSpec{{1, network.InputNeuron, 17, 1}, {2, network.BiasNeuron, 17, 0}, {3, network.OutputNeuron, act, 1}, {4, network.OutputNeuron, 13, 0}, {5, network.HiddenNeuron, act, 0}}},
		// node list NOT in ascending id order (legal for the constructors and readers)
		{"unordered-ids", []NodeSpec{{7, network.OutputNeuron, act, 0}, {2, network.InputNeuron, 17, 1}, {5, network.HiddenNeuron, 11, 1}, {1, network.BiasNeuron, 17, 0}}},
	}
}

type c11Cand struct{ In, Out int }

func (l c11Layout) candidates() []c11Cand {
	var cs []c11Cand
	// two links that END in a sensor first (not produced by the library's own operators, but a genome
	// may carry them and the statement has no premise that excludes them): the first neuron into each of
	// the first two sensors
	var firstNeuron int
	for _, t := range l.Nodes {
		if !isSensorRole(t.Role) {
			firstNeuron = t.ID
			break
		}
	}
	k := 0
	for _, t := range l.Nodes {
		if isSensorRole(t.Role) && k < 2 {
			cs = append(cs, c11Cand{firstNeuron, t.ID})
			k++
		}
	}
	for _, s := range l.Nodes {
		for _, t := range l.Nodes {
			if !isSensorRole(t.Role) {
				cs = append(cs, c11Cand{s.ID, t.ID})
			}
		}
	}
	return cs
}

type c11Case struct {
	Layout int   `json:"layout"`
	Code   int64 `json:"code"` // base-3 (pass 1) or base-4 (pass 2) digits per candidate link
	Pass   int   `json:"pass"`
	Module int   `json:"module"` // 0 none, 1 enabled module, 2 disabled module, 3 two modules
}

func (cs c11Case) spec() *GenomeSpec {
	l := c11Layouts()[cs.Layout]
	g := &GenomeSpec{ID: 3, Traits: []TraitSpec{{1, params8(0.1)}}, Nodes: l.Nodes}
	code := cs.Code
	innov := int64(1)
	add := func(c c11Cand, en, rec bool, i int) {
		w := hardFloats[(i*2+int(innov))%len(hardFloats)]
		if w == 0 {
			w = -0.75
		}
		g.Genes = append(g.Genes, GeneSpec{In: c.In, Out: c.Out, W: w, Rec: rec, Innov: innov, Mut: w, En: en, Trait: int(innov) % 2})
		innov++
	}
	for i, c := range l.candidates() {
		if cs.Pass == 1 {
			d := code % 3
			code /= 3
			switch d {
			case 1:
				add(c, true, false, i)
			case 2:
				add(c, false, false, i)
			}
		} else {
			d := code % 5
			code /= 5
			switch d {
			case 1:
				add(c, true, false, i)
			case 2:
				add(c, true, true, i)
			case 3:
				add(c, true, false, i)
				add(c, true, true, i)
			case 4:
				add(c, true, true, i)
				add(c, false, false, i)
			}
		}
	}
	neurons := []int{}
	sensors := []int{}
	for _, n := range l.Nodes {
		if isSensorRole(n.Role) {
			sensors = append(sensors, n.ID)
		} else {
			neurons = append(neurons, n.ID)
		}
	}
	switch cs.Module {
	case 1, 2:
		g.Modules = []ModuleSpec{{Innov: 100, Mut: 1, En: cs.Module == 1, NodeID: 50, Act: 21, Trait: 1, Inputs: []int{sensors[0], neurons[0]}, Outputs: []int{neurons[len(neurons)-1]}, InW: []float64{1, 1}, OutW: []float64{1}}}
	case 3, 4, 5, 6:
		// two modules: both enabled / first disabled / second disabled / both disabled
		g.Modules = []ModuleSpec{
			{Innov: 100, Mut: 1, En: cs.Module == 3 || cs.Module == 5, NodeID: 50, Act: 22, Trait: 0, Inputs: []int{sensors[0], sensors[1]}, Outputs: []int{neurons[0], neurons[len(neurons)-1]}, InW: []float64{1, 1}, OutW: []float64{1, 1}},
			{Innov: 101, Mut: 2, En: cs.Module == 3 || cs.Module == 4, NodeID: 51, Act: 23, Trait: 1, Inputs: []int{neurons[0]}, Outputs: []int{neurons[1%len(neurons)]}, InW: []float64{1}, OutW: []float64{1}}}
	case 7, 8:
		// modules that intersect: three enabled modules share their first input, the output of the first is
		// an input of the second, two of them write to the same node; 8: the same listed in another order
		g.Modules = []ModuleSpec{
			{Innov: 100, Mut: 1, En: true, NodeID: 50, Act: 22, Trait: 0, Inputs: []int{sensors[0], sensors[1]}, Outputs: []int{neurons[0]}, InW: []float64{1, 1}, OutW: []float64{1}},
			{Innov: 101, Mut: 2, En: true, NodeID: 51, Act: 23, Trait: 1, Inputs: []int{sensors[0], neurons[0]}, Outputs: []int{neurons[len(neurons)-1]}, InW: []float64{1, 1}, OutW: []float64{1}},
			{Innov: 102, Mut: 3, En: true, NodeID: 52, Act: 21, Trait: 1, Inputs: []int{sensors[0]}, Outputs: []int{neurons[len(neurons)-1]}, InW: []float64{1}, OutW: []float64{1}}}
		if cs.Module == 8 {
			g.Modules[0], g.Modules[2] = g.Modules[2], g.Modules[0]
		}
	}
	return g
}

type c11Link struct {
	In, Out int
	W       uint64
	Rec     bool
}

func linkKeyOf(l *network.Link) c11Link {
	return c11Link{l.InNode.Id, l.OutNode.Id, floatBits(l.ConnectionWeight), l.IsRecurrent}
}

func sortedLinks(ls []c11Link) []c11Link {
	sort.Slice(ls, func(i, j int) bool {
		a, b := ls[i], ls[j]
		if a.In != b.In {
			return a.In < b.In
		}
		if a.Out != b.Out {
			return a.Out < b.Out
		}
		if a.W != b.W {
			return a.W < b.W
		}
		return !a.Rec && b.Rec
	})
	return ls
}

func idSet(it interface {
	Next() bool
	Len() int
}, get func() int64) map[int64]bool {
	m := map[int64]bool{}
	for it.Next() {
		m[get()] = true
	}
	return m
}

// c11Check expresses the genome and compares everything; returns "" or the first discrepancy.
func c11Check(g *GenomeSpec) (msg string, queries int64) {
	return c11CheckN(g, false)
}

// c11CheckN: with again set, the genome is expressed twice and the SECOND network is examined (expressing a
// genome must not depend on, or disturb, an earlier expression of the same genome).
func c11CheckN(g *GenomeSpec, again bool) (msg string, queries int64) {
	gen := g.Build()
	var first *network.Network
	if again {
		first, _ = gen.Genesis(g.ID + 1)
	}
	defer func() {
		if msg == "" && first != nil {
			want := 0
			for _, gn := range g.Genes {
				if gn.En {
					want++
				}
			}
			got := 0
			for _, n := range first.BaseNodes() {
				got += len(n.Incoming)
			}
			if got != want {
				msg = fmt.Sprintf("expressing the genome a second time changed the first network: it now has %d links, the genome has %d enabled genes", got, want)
			}
		}
	}()
	net, err := gen.Genesis(g.ID)
	if len(g.Genes) == 0 {
		if err == nil {
			return "a genome without genes was expressed without error", 0
		}
		return "", 0
	}
	if err != nil {
		return "Genesis failed: " + err.Error(), 0
	}
	base := net.BaseNodes()
	if len(base) != len(g.Nodes) {
		return fmt.Sprintf("network has %d base nodes, genome has %d nodes", len(base), len(g.Nodes)), 0
	}
	byID := map[int]*network.NNode{}
	for i, n := range g.Nodes {
		b := base[i]
		if b.Id != n.ID || b.NeuronType != n.Role || b.ActivationType != n.Act {
			return fmt.Sprintf("network node #%d is (id %d, role %s, activation %d), genome node is (id %d, role %s, activation %d)", i, b.Id, roleLetter(b.NeuronType), b.ActivationType, n.ID, roleLetter(n.Role), n.Act), 0
		}
		if gen.Nodes[i].PhenotypeAnalogue != b {
			return fmt.Sprintf("genome node %d does not point to the network node it generated", n.ID), 0
		}
		byID[b.Id] = b
	}
	// inputs and outputs in genome order
	var wantIn, wantOut []int
	for _, n := range g.Nodes {
		if isSensorRole(n.Role) {
			wantIn = append(wantIn, n.ID)
		} else if n.Role == network.OutputNeuron {
			wantOut = append(wantOut, n.ID)
		}
	}
	ins := net.VInputs()
	if len(ins) != len(wantIn) {
		return fmt.Sprintf("network has %d inputs, genome has %d sensors", len(ins), len(wantIn)), 0
	}
	for i, n := range ins {
		if n.Id != wantIn[i] || n != byID[n.Id] {
			return fmt.Sprintf("network input #%d is node %d, the genome's sensor #%d is node %d", i, n.Id, i, wantIn[i]), 0
		}
	}
	if len(net.Outputs) != len(wantOut) {
		return fmt.Sprintf("network has %d outputs, genome has %d", len(net.Outputs), len(wantOut)), 0
	}
	for i, n := range net.Outputs {
		if n.Id != wantOut[i] || n != byID[n.Id] {
			return fmt.Sprintf("network output #%d is node %d, the genome's output #%d is node %d", i, n.Id, i, wantOut[i]), 0
		}
	}
	// behavioural: the i-th loaded value lands in the i-th genome sensor
	vals := make([]float64, len(wantIn))
	for i := range vals {
		vals[i] = 10 + float64(i)
	}
	if err := net.LoadSensors(vals); err != nil {
		return "LoadSensors failed: " + err.Error(), 0
	}
	for i, id := range wantIn {
		if byID[id].Activation != vals[i] {
			return fmt.Sprintf("the %d-th loaded value went to another node than the genome's %d-th sensor (node %d holds %g)", i, i, id, byID[id].Activation), 0
		}
	}
	// links: exactly one per enabled gene
	wantInc, wantOutg := map[int][]c11Link{}, map[int][]c11Link{}
	adj := map[[2]int][]float64{}
	enabled := 0
	for _, gn := range g.Genes {
		if !gn.En {
			continue
		}
		enabled++
		k := c11Link{gn.In, gn.Out, floatBits(gn.W), gn.Rec}
		wantInc[gn.Out] = append(wantInc[gn.Out], k)
		wantOutg[gn.In] = append(wantOutg[gn.In], k)
		adj[[2]int{gn.In, gn.Out}] = append(adj[[2]int{gn.In, gn.Out}], gn.W)
	}
	for _, b := range base {
		var inc, out []c11Link
		for _, l := range b.Incoming {
			if l.OutNode != b || byID[l.InNode.Id] != l.InNode {
				return fmt.Sprintf("an incoming link of node %d is not wired to the network's own nodes", b.Id), 0
			}
			inc = append(inc, linkKeyOf(l))
		}
		for _, l := range b.Outgoing {
			if l.InNode != b || byID[l.OutNode.Id] != l.OutNode {
				return fmt.Sprintf("an outgoing link of node %d is not wired to the network's own nodes", b.Id), 0
			}
			out = append(out, linkKeyOf(l))
		}
		if fmt.Sprint(sortedLinks(inc)) != fmt.Sprint(sortedLinks(wantInc[b.Id])) {
			return fmt.Sprintf("incoming links of node %d are %v, the enabled genes give %v", b.Id, sortedLinks(inc), sortedLinks(wantInc[b.Id])), 0
		}
		if fmt.Sprint(sortedLinks(out)) != fmt.Sprint(sortedLinks(wantOutg[b.Id])) {
			return fmt.Sprintf("outgoing links of node %d are %v, the enabled genes give %v", b.Id, sortedLinks(out), sortedLinks(wantOutg[b.Id])), 0
		}
	}
	// control nodes
	ctrlIn, ctrlOut := map[int][]int{}, map[int][]int{}
	var ctrlIDs []int
	ctrlLinks := 0
	for _, m := range g.Modules {
		if !m.En {
			continue
		}
		ctrlIDs = append(ctrlIDs, m.NodeID)
		ctrlIn[m.NodeID], ctrlOut[m.NodeID] = m.Inputs, m.Outputs
		ctrlLinks += len(m.Inputs) + len(m.Outputs)
		for _, i := range m.Inputs {
			adj[[2]int{i, m.NodeID}] = append(adj[[2]int{i, m.NodeID}], 1)
		}
		for _, o := range m.Outputs {
			adj[[2]int{m.NodeID, o}] = append(adj[[2]int{m.NodeID, o}], 1)
		}
	}
	cn := net.ControlNodes()
	if len(cn) != len(ctrlIDs) {
		return fmt.Sprintf("network has %d control nodes, genome has %d enabled modules", len(cn), len(ctrlIDs)), 0
	}
	for i, c := range cn {
		if c.Id != ctrlIDs[i] {
			return fmt.Sprintf("control node #%d has id %d, module has %d", i, c.Id, ctrlIDs[i]), 0
		}
		var gi, go_ []int
		for _, l := range c.Incoming {
			gi = append(gi, l.InNode.Id)
			if byID[l.InNode.Id] != l.InNode {
				return fmt.Sprintf("control node %d is wired to a node that is not the network's own", c.Id), 0
			}
		}
		for _, l := range c.Outgoing {
			go_ = append(go_, l.OutNode.Id)
			if byID[l.OutNode.Id] != l.OutNode {
				return fmt.Sprintf("control node %d is wired to a node that is not the network's own", c.Id), 0
			}
		}
		if fmt.Sprint(gi) != fmt.Sprint(ctrlIn[c.Id]) || fmt.Sprint(go_) != fmt.Sprint(ctrlOut[c.Id]) {
			return fmt.Sprintf("control node %d is wired %v -> %v, the module lists %v -> %v", c.Id, gi, go_, ctrlIn[c.Id], ctrlOut[c.Id]), 0
		}
	}
	if len(net.AllNodes()) != len(base)+len(cn) {
		return fmt.Sprintf("AllNodes has %d entries, base + control = %d", len(net.AllNodes()), len(base)+len(cn)), 0
	}
	// counts
	if net.NodeCount() != len(g.Nodes)+len(ctrlIDs) {
		return fmt.Sprintf("NodeCount %d, genome nodes + enabled modules = %d", net.NodeCount(), len(g.Nodes)+len(ctrlIDs)), 0
	}
	if net.LinkCount() != enabled+ctrlLinks {
		return fmt.Sprintf("LinkCount %d, enabled genes + module wiring = %d", net.LinkCount(), enabled+ctrlLinks), 0
	}
	if net.Complexity() != len(g.Nodes)+len(ctrlIDs)+enabled+ctrlLinks {
		return fmt.Sprintf("Complexity %d, expected %d", net.Complexity(), len(g.Nodes)+len(ctrlIDs)+enabled+ctrlLinks), 0
	}
	// graph view: all ordered pairs of ids
	ids := []int{0, 99}
	present := map[int]bool{}
	for _, n := range g.Nodes {
		ids = append(ids, n.ID)
		present[n.ID] = true
	}
	for _, c := range ctrlIDs {
		ids = append(ids, c)
		present[c] = true
	}
	for _, m := range g.Modules {
		if !m.En {
			ids = append(ids, m.NodeID) // a disabled module's node must be absent
		}
	}
	it := net.Nodes()
	all := map[int64]bool{}
	cnt := 0
	for it.Next() {
		all[it.Node().ID()] = true
		cnt++
	}
	if cnt != len(present) || len(all) != len(present) {
		return fmt.Sprintf("Nodes() yields %d nodes (%d distinct), expected %d", cnt, len(all), len(present)), 0
	}
	// listings are independent values: a listing taken earlier and drained later, and a listing taken while
	// another one is being walked (the nested loops of an all-pairs enumeration), each yield every node
	itA, itB := net.Nodes(), net.Nodes()
	itA.Next()
	n2 := 0
	for itB.Next() {
		n2++
	}
	n1 := 1
	for itA.Next() {
		n1++
	}
	if n1 != len(present) || n2 != len(present) {
		return fmt.Sprintf("two node listings taken one after the other and drained interleaved yield %d and %d nodes, expected %d each", n1, n2, len(present)), 0
	}
	pairs := 0
	for outer := net.Nodes(); outer.Next(); {
		for inner := net.Nodes(); inner.Next(); {
			pairs++
		}
	}
	if pairs != len(present)*len(present) {
		return fmt.Sprintf("nested node listings visit %d ordered pairs, expected %d", pairs, len(present)*len(present)), 0
	}
	// the same for successor / predecessor listings: all of them taken first, drained afterwards
	if len(ids) > 2 {
		u0, u1 := ids[2], ids[len(ids)-1]
		fa, fb, ta, tb := net.From(int64(u0)), net.From(int64(u1)), net.To(int64(u0)), net.To(int64(u1))
		cnt := func(it graph.Nodes) map[int64]bool {
			m := map[int64]bool{}
			for it.Next() {
				m[it.Node().ID()] = true
			}
			return m
		}
		gfa, gta, gfb, gtb := cnt(fa), cnt(ta), cnt(fb), cnt(tb)
		wfa, wta, wfb, wtb := cnt(net.From(int64(u0))), cnt(net.To(int64(u0))), cnt(net.From(int64(u1))), cnt(net.To(int64(u1)))
		if fmt.Sprint(gfa, gta, gfb, gtb) != fmt.Sprint(wfa, wta, wfb, wtb) {
			return fmt.Sprintf("From/To listings of nodes %d and %d taken together and drained afterwards give %v, taken one at a time %v", u0, u1, []interface{}{gfa, gta, gfb, gtb}, []interface{}{wfa, wta, wfb, wtb}), 0
		}
	}
	for _, u := range ids {
		nd := net.Node(int64(u))
		if present[u] != (nd != nil) || (nd != nil && nd.ID() != int64(u)) {
			return fmt.Sprintf("Node(%d) = %v, presence expected %v", u, nd, present[u]), queries
		}
		succ, pred := map[int64]bool{}, map[int64]bool{}
		for k := range adj {
			if k[0] == u {
				succ[int64(k[1])] = true
			}
			if k[1] == u {
				pred[int64(k[0])] = true
			}
		}
		fr := net.From(int64(u))
		got := map[int64]bool{}
		for fr.Next() {
			got[fr.Node().ID()] = true
		}
		if fmt.Sprint(got) != fmt.Sprint(succ) {
			return fmt.Sprintf("From(%d) = %v, the structure gives %v", u, got, succ), queries
		}
		to := net.To(int64(u))
		got = map[int64]bool{}
		for to.Next() {
			got[to.Node().ID()] = true
		}
		if fmt.Sprint(got) != fmt.Sprint(pred) {
			return fmt.Sprintf("To(%d) = %v, the structure gives %v", u, got, pred), queries
		}
		for _, v := range ids {
			queries++
			ws, has := adj[[2]int{u, v}]
			_, hasRev := adj[[2]int{v, u}]
			e := net.Edge(int64(u), int64(v))
			if has != (e != nil) {
				return fmt.Sprintf("Edge(%d,%d) present=%v, the structure says %v", u, v, e != nil, has), queries
			}
			if e != nil && (e.From().ID() != int64(u) || e.To().ID() != int64(v)) {
				return fmt.Sprintf("Edge(%d,%d) returned the edge %d->%d", u, v, e.From().ID(), e.To().ID()), queries
			}
			we := net.WeightedEdge(int64(u), int64(v))
			if has != (we != nil) {
				return fmt.Sprintf("WeightedEdge(%d,%d) present=%v, the structure says %v", u, v, we != nil, has), queries
			}
			w, ok := net.Weight(int64(u), int64(v))
			if ok != has {
				return fmt.Sprintf("Weight(%d,%d) ok=%v, the structure says %v", u, v, ok, has), queries
			}
			if has {
				found := false
				for _, x := range ws {
					if sameF(x, w) {
						found = true
					}
				}
				if !found {
					return fmt.Sprintf("Weight(%d,%d) = %g, the links %d->%d have weights %v", u, v, w, u, v, ws), queries
				}
			} else if w != 0 {
				return fmt.Sprintf("Weight(%d,%d) = %g for an absent edge", u, v, w), queries
			}
			if net.HasEdgeFromTo(int64(u), int64(v)) != has {
				return fmt.Sprintf("HasEdgeFromTo(%d,%d) = %v, the structure says %v", u, v, !has, has), queries
			}
			if net.HasEdgeBetween(int64(u), int64(v)) != (has || hasRev) {
				return fmt.Sprintf("HasEdgeBetween(%d,%d) = %v, the structure says %v", u, v, !(has || hasRev), has || hasRev), queries
			}
		}
	}
	return "", queries
}

func floatBits(f float64) uint64 { return hashString(fb(f)) }

// c11Organism: Phenotype() caches, UpdatePhenotype() rebuilds.
func c11Organism(g *GenomeSpec) string {
	if len(g.Genes) == 0 {
		return ""
	}
	gen := g.Build()
	o, err := genetics.NewOrganism(1, gen, 1)
	if err != nil {
		return err.Error()
	}
	p1, err := o.Phenotype()
	if err != nil || p1 == nil {
		return fmt.Sprintf("Phenotype() failed: %v", err)
	}
	p2, _ := o.Phenotype()
	if p1 != p2 {
		return "Phenotype() built a second network instead of returning the cached one"
	}
	// flip the first gene and rebuild
	gen.Genes[0].IsEnabled = !gen.Genes[0].IsEnabled
	if p3, _ := o.Phenotype(); p3 != p1 {
		return "Phenotype() dropped its cache without UpdatePhenotype()"
	}
	anyEnabled := false
	for _, x := range gen.Genes {
		anyEnabled = anyEnabled || x.IsEnabled
	}
	if err := o.UpdatePhenotype(); err != nil {
		return "UpdatePhenotype failed: " + err.Error()
	}
	p4, _ := o.Phenotype()
	if p4 == p1 {
		return "UpdatePhenotype() did not rebuild the network"
	}
	want := 0
	for _, x := range gen.Genes {
		if x.IsEnabled {
			want++
		}
	}
	got := 0
	for _, n := range p4.BaseNodes() {
		got += len(n.Incoming)
	}
	if got != want {
		return fmt.Sprintf("after UpdatePhenotype() the network has %d links, the genome has %d enabled genes", got, want)
	}
	return ""
}

func runC11(c *Ctx) {
	layouts := c11Layouts()
	type job struct {
		cs     c11Case
		lo, hi int64
	}
	var jobs []job
	pow := func(b, e int) int64 {
		r := int64(1)
		for i := 0; i < e; i++ {
			r *= int64(b)
		}
		return r
	}
	desc := ""
	for li, l := range layouts {
		k := len(l.candidates())
		total := pow(3, k)
		if c.Quick() && k > 10 {
			// quick: the first 10 candidate links vary, the remaining stay absent
			total = pow(3, 10)
		} else if k > 13 {
			// thorough: the first 13 candidate links vary (1 594 323 genomes per layout)
			total = pow(3, 13)
		}
		desc += fmt.Sprintf("layout %s: %d nodes, %d candidate links, %d genomes; ", l.Name, len(l.Nodes), k, total)
		for lo := int64(0); lo < total; lo += 2048 {
			hi := lo + 2048
			if hi > total {
				hi = total
			}
			jobs = append(jobs, job{c11Case{Layout: li, Pass: 1}, lo, hi})
		}
		// pass 2: recurrence variants on the first 4 (quick) / 5 (thorough) candidates
		e := 4
		if !c.Quick() {
			e = 5
		}
		jobs = append(jobs, job{c11Case{Layout: li, Pass: 2}, 0, pow(5, e)})
		for m := 1; m <= 8; m++ {
			jobs = append(jobs, job{c11Case{Layout: li, Pass: 1, Module: m}, 0, pow(3, 6)})
		}
	}
	c.Rule = desc + "pass 1: every assignment {absent, enabled, disabled} to every candidate link (every source x every non-sensor target incl. self-loops); pass 2: {absent, plain, recurrent, both in parallel, recurrent + disabled plain} on the first candidates; modular variants (one module enabled / disabled; two modules in all four enabled/disabled combinations; three intersecting modules that share an input and a target, in two orders) over 3^6 link assignments; the candidate links include two that end in a sensor; for each expressed network: nodes, inputs/outputs in genome order (also behaviourally through LoadSensors), link multisets per node, control wiring, counts, and Node/Nodes/From/To/Edge/WeightedEdge/Weight/HasEdgeFromTo/HasEdgeBetween for ALL ordered pairs of ids (incl. absent ids and disabled modules' ids); organism phenotype caching and rebuild. non-trivial = distinct genomes expressed"
	parFor(len(jobs), func(ji int) {
		j := jobs[ji]
		if c.Expired() {
			c.MarkCapped("deadline reached before all genomes were enumerated")
			return
		}
		var q, n int64
		for code := j.lo; code < j.hi; code++ {
			cs := j.cs
			cs.Code = code
			g := cs.spec()
			msg, queries := c11Check(g)
			q += queries
			n++
			if msg == "" && code%7 == 0 {
				msg = c11Organism(g)
			}
			if msg == "" && code%5 == 0 {
				var q2 int64
				msg, q2 = c11CheckN(g, true)
				q += q2
				if msg != "" {
					msg = "second expression of the same genome: " + msg
				}
			}
			if msg != "" {
				params := map[string]interface{}{}
				js, _ := jsonMarshal(cs)
				_ = jsonUnmarshal(js, &params)
				c.ViolateOrd("C11/"+clauseOf(msg), int64(len(g.Genes))<<40|code, msg+" for genome "+g.Short(), &Replay{Scenario: "genome", Params: params, Clause: msg})
			}
		}
		c.AddEval(q + n)
		c.Count("genomes_expressed", n)
		c.Count("pair_queries", q)
		for code := j.lo; code < j.hi; code += 16 {
			c.Distinct(uint64(ji)<<40 | uint64(code))
		}
	})
	c.Extra["distinct_note"] = "distinct_nontrivial counts every 16th genome code (genomes are distinct by construction; genomes_expressed is the full count)"
	s := c11Case{Layout: 1, Pass: 1, Code: 12345}
	c.Sample(map[string]interface{}{"layout": "late-sensors", "genome": s.spec().Short()})
	c.Assume("weights from the hard-float alphabet; From/To compared as sets (parallel links)")
}

func clauseOf(msg string) string {
	for i, r := range msg {
		if r == '(' || r == ' ' {
			return msg[:i]
		}
	}
	return msg
}

func replayC11(c *Ctx, rp *Replay) (bool, string) {
	var cs c11Case
	js, _ := jsonMarshal(rp.Params)
	_ = jsonUnmarshal(js, &cs)
	g := cs.spec()
	if msg, _ := c11Check(g); msg != "" {
		return true, msg + " for genome " + g.Short()
	}
	if msg := c11Organism(g); msg != "" {
		return true, msg
	}
	return false, g.Short()
}
