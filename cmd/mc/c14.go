package main

import (
	"errors"
	"fmt"
	"runtime/debug"

	neatmath "github.com/yaricom/goNEAT/v4/neat/math"
	"github.com/yaricom/goNEAT/v4/neat/network"
)

// C14 — activation depth is the longest path to an output and always terminates.
//
// E4: one sensor and k neurons (hidden + outputs); ALL digraphs over them: every
// neuron->neuron edge including self-loops (k*k bits) and every sensor->neuron
// edge (k bits). Every cap in {0..n+1} and every PAIR of consecutive queries.

func init() { register("C14", "exploration", runC14, replayC14) }

type c14Shape struct {
	Hidden, Outputs int
}

func (s c14Shape) k() int     { return s.Hidden + s.Outputs }
func (s c14Shape) bits() uint { return uint(s.k()*s.k() + s.k()) }

// c14Build constructs the network for graph code g: neuron i (0-based; hidden first,
// then outputs) has node id i+2, the sensor has id 1.
func c14Build(sh c14Shape, g uint64) (*network.Network, []*network.NNode) {
	return c14BuildFlagged(sh, g, -1)
}

// c14BuildFlagged: flag = -1 no link is marked recurrent, -2 every link is, e >= 0 only
// the e-th link (in construction order). The depth is a property of the paths, not of the flags.
func c14BuildFlagged(sh c14Shape, g uint64, flag int) (*network.Network, []*network.NNode) {
	k := sh.k()
	sensor := network.NewSensorNode(1, false)
	neurons := make([]*network.NNode, k)
	all := []*network.NNode{sensor}
	var outs []*network.NNode
	for i := 0; i < k; i++ {
		role := network.HiddenNeuron
		if i >= sh.Hidden {
			role = network.OutputNeuron
		}
		neurons[i] = network.NewNNode(i+2, role)
		neurons[i].ActivationType = neatmath.SigmoidSteepenedActivation
		all = append(all, neurons[i])
		if role == network.OutputNeuron {
			outs = append(outs, neurons[i])
		}
	}
	e := 0
	mark := func(l *network.Link) {
		if flag == -2 || flag == e {
			l.IsRecurrent = true
		}
		e++
	}
	for i := 0; i < k; i++ {
		for j := 0; j < k; j++ {
			if g&(1<<uint(i*k+j)) != 0 {
				mark(neurons[j].ConnectFrom(neurons[i], 1.0))
			}
		}
	}
	for j := 0; j < k; j++ {
		if g&(1<<uint(k*k+j)) != 0 {
			mark(neurons[j].ConnectFrom(sensor, 1.0))
		}
	}
	return network.NewNetwork([]*network.NNode{sensor}, outs, all, 1), all
}

// c14DagDepth returns (longest path in links ending in an output, true) if the
// neuron subgraph is acyclic, else (0,false).
func c14DagDepth(sh c14Shape, g uint64) (int, bool) {
	k := sh.k()
	// Kahn on neurons
	indeg := make([]int, k)
	for i := 0; i < k; i++ {
		for j := 0; j < k; j++ {
			if g&(1<<uint(i*k+j)) != 0 {
				indeg[j]++
			}
		}
	}
	L := make([]int, k)
	for j := 0; j < k; j++ {
		if g&(1<<uint(k*k+j)) != 0 {
			L[j] = 1 // link from the sensor
		}
	}
	done := 0
	queue := []int{}
	for j := 0; j < k; j++ {
		if indeg[j] == 0 {
			queue = append(queue, j)
		}
	}
	for len(queue) > 0 {
		i := queue[0]
		queue = queue[1:]
		done++
		for j := 0; j < k; j++ {
			if g&(1<<uint(i*k+j)) != 0 {
				if L[i]+1 > L[j] {
					L[j] = L[i] + 1
				}
				indeg[j]--
				if indeg[j] == 0 {
					queue = append(queue, j)
				}
			}
		}
	}
	if done != k {
		return 0, false
	}
	best := 0
	for j := sh.Hidden; j < k; j++ {
		if L[j] > best {
			best = L[j]
		}
	}
	return best, true
}

type c14Result struct {
	depth  int
	capErr bool
	other  string
}

func c14Query(n *network.Network, cap int) c14Result {
	d, err := n.MaxActivationDepthWithCap(cap)
	r := c14Result{depth: d}
	if err != nil {
		if errors.Is(err, network.ErrMaximalNetDepthExceeded) {
			r.capErr = true
		} else {
			r.other = err.Error()
		}
	}
	return r
}

func c14Expect(uncapped, cap int) c14Result {
	if cap > 0 && uncapped > cap {
		return c14Result{depth: cap, capErr: true}
	}
	return c14Result{depth: uncapped}
}

func c14Marked(all []*network.NNode) int {
	for _, n := range all {
		if n.VVisited() {
			return n.Id
		}
	}
	return 0
}

func c14Edges(sh c14Shape, g uint64) string {
	k := sh.k()
	s := ""
	name := func(i int) string {
		if i >= sh.Hidden {
			return fmt.Sprintf("o%d", i+2)
		}
		return fmt.Sprintf("h%d", i+2)
	}
	for j := 0; j < k; j++ {
		if g&(1<<uint(k*k+j)) != 0 {
			s += fmt.Sprintf("s1>%s ", name(j))
		}
	}
	for i := 0; i < k; i++ {
		for j := 0; j < k; j++ {
			if g&(1<<uint(i*k+j)) != 0 {
				s += fmt.Sprintf("%s>%s ", name(i), name(j))
			}
		}
	}
	return s
}

// c14Eval checks one graph completely; returns failures (clause, message, c1, c2).
func c14Eval(sh c14Shape, g uint64) (fails [][4]interface{}, dag bool, queries int64) {
	nNodes := sh.k() + 1
	fresh, all := c14Build(sh, g)
	u := c14Query(fresh, 0)
	queries++
	if u.capErr || u.other != "" {
		fails = append(fails, [4]interface{}{"uncapped-error", fmt.Sprintf("uncapped query returned an error (%v %s)", u.capErr, u.other), 0, -1})
		return
	}
	// the other entry points of the uncapped query: MaxActivationDepth() and a non-positive cap
	if d, err := fresh.MaxActivationDepth(); err != nil || d != u.depth {
		fails = append(fails, [4]interface{}{"entry-points-differ", fmt.Sprintf("MaxActivationDepth() = (%d, %v), MaxActivationDepthWithCap(0) = %d", d, err, u.depth), 0, -1})
	}
	if r := c14Query(fresh, -1); r != u {
		fails = append(fails, [4]interface{}{"negative-cap", fmt.Sprintf("a cap of -1 (no limit) gave (%d, capErr=%v %s), the uncapped depth is %d", r.depth, r.capErr, r.other, u.depth), 0, -1})
	}
	queries += 2
	ref, isDag := c14DagDepth(sh, g)
	dag = isDag
	// the same graph built through the modular constructor with an EMPTY list of control nodes (what
	// Genesis produces for a genome whose modules are all disabled): still an ordinary network
	{
		n2, _ := c14Build(sh, g)
		m := network.NewModularNetwork(n2.VInputs(), n2.Outputs, n2.BaseNodes(), []*network.NNode{}, 1)
		d, err := m.MaxActivationDepth()
		queries++
		if err != nil {
			fails = append(fails, [4]interface{}{"empty-module-list", fmt.Sprintf("MaxActivationDepth() on the network built with an empty control-node list failed: %v", err), 0, -1})
		} else if isDag && d != ref {
			fails = append(fails, [4]interface{}{"empty-module-list", fmt.Sprintf("MaxActivationDepth() on the network built with an empty (non-nil) control-node list = %d, longest path ending in an output has %d links", d, ref), 0, -1})
		} else if !isDag && (d < 0 || d > nNodes) {
			fails = append(fails, [4]interface{}{"empty-module-list", fmt.Sprintf("MaxActivationDepth() on the cyclic network built with an empty control-node list = %d, outside [0,%d]", d, nNodes), 0, -1})
		}
	}
	if isDag {
		if u.depth != ref {
			fails = append(fails, [4]interface{}{"dag-depth", fmt.Sprintf("depth %d, longest path ending in an output has %d links", u.depth, ref), 0, -1})
		}
	} else if u.depth < 0 || u.depth > nNodes {
		fails = append(fails, [4]interface{}{"cyclic-range", fmt.Sprintf("depth %d outside [0,%d] on a cyclic network", u.depth, nNodes), 0, -1})
	}
	if id := c14Marked(all); id != 0 {
		fails = append(fails, [4]interface{}{"marks-left", fmt.Sprintf("node %d still marked after an uncapped query", id), 0, -1})
	}
	// the same graph with links flagged recurrent (all of them; each one alone): same depth
	edges := 0
	for b := g; b != 0; b &= b - 1 {
		edges++
	}
	for flag := -2; flag < edges; flag++ {
		if flag == -1 {
			continue
		}
		fn, fall := c14BuildFlagged(sh, g, flag)
		fr := c14Query(fn, 0)
		queries++
		if !isDag {
			// cyclic: only termination and the range are demanded
			if fr.other != "" || fr.capErr || fr.depth < 0 || fr.depth > nNodes {
				fails = append(fails, [4]interface{}{"cyclic-range", fmt.Sprintf("depth (%d, capErr=%v %s) outside [0,%d] on a cyclic network with flagged links", fr.depth, fr.capErr, fr.other, nNodes), 0, -1})
				break
			}
		} else if fr != u {
			which := "every link"
			if flag >= 0 {
				which = fmt.Sprintf("link %d (construction order)", flag)
			}
			fails = append(fails, [4]interface{}{"recurrent-flag-changes-depth", fmt.Sprintf("with %s flagged recurrent the depth is (%d, capErr=%v %s), without flags %d", which, fr.depth, fr.capErr, fr.other, u.depth), 0, -1})
			break
		}
		if id := c14Marked(fall); id != 0 {
			fails = append(fails, [4]interface{}{"marks-left", fmt.Sprintf("node %d still marked after an uncapped query (flagged links)", id), 0, -1})
			break
		}
	}
	for c1 := 0; c1 <= nNodes+1; c1++ {
		for c2 := 0; c2 <= nNodes+1; c2++ {
			net, nodes := c14Build(sh, g)
			r1 := c14Query(net, c1)
			queries++
			if e := c14Expect(u.depth, c1); r1 != e {
				fails = append(fails, [4]interface{}{"cap", fmt.Sprintf("cap %d on a fresh network gave (%d, capErr=%v %s), want (%d, capErr=%v) [uncapped %d]", c1, r1.depth, r1.capErr, r1.other, e.depth, e.capErr, u.depth), c1, -1})
				break
			}
			r2 := c14Query(net, c2)
			queries++
			if e := c14Expect(u.depth, c2); r2 != e {
				fails = append(fails, [4]interface{}{"second-query", fmt.Sprintf("query with cap %d after a query with cap %d gave (%d, capErr=%v), a fresh network gives (%d, capErr=%v)", c2, c1, r2.depth, r2.capErr, e.depth, e.capErr), c1, c2})
			}
			if id := c14Marked(nodes); id != 0 {
				fails = append(fails, [4]interface{}{"marks-left", fmt.Sprintf("node %d still marked after queries with caps %d,%d", id, c1, c2), c1, c2})
			}
			if len(fails) > 8 {
				return
			}
		}
	}
	return
}

// c14Long: deep networks. A chain sensor -> h1 -> ... -> hN -> output with a direct sensor -> output link and, at every
// third hidden node, a dead-end side neuron (no skip links: the library enumerates paths, their number must stay linear); the node list in signal order or reversed.
// The longest path ending in the output has N+1 links whatever the extras.
func c14Long(n int, reversed bool) (*network.Network, []*network.NNode) {
	in, out := network.NewNNode(1, network.InputNeuron), network.NewNNode(2, network.OutputNeuron)
	h := make([]*network.NNode, n)
	all := []*network.NNode{in, out}
	for i := range h {
		h[i] = network.NewNNode(3+i, network.HiddenNeuron)
	}
	out.ConnectFrom(in, 0.5)
	prev := in
	for i := range h {
		h[i].ConnectFrom(prev, 1)
		prev = h[i]
	}
	out.ConnectFrom(prev, 1)
	id := 3 + n
	for i := 0; i < n; i += 3 {
		side := network.NewNNode(id, network.HiddenNeuron)
		id++
		side.ConnectFrom(h[i], 1)
		all = append(all, side)
	}
	if reversed {
		for i := n - 1; i >= 0; i-- {
			all = append(all, h[i])
		}
	} else {
		all = append(all, h...)
	}
	return network.NewNetwork([]*network.NNode{in}, []*network.NNode{out}, all, 0), all
}

// c14LongEval: uncapped depth, the caps around the depth on a fresh network and as second queries, no marks left.
func c14LongEval(n int, reversed bool) (fails []string, queries int64) {
	want := n + 1
	net, all := c14Long(n, reversed)
	if r := c14Query(net, 0); r != (c14Result{depth: want}) {
		fails = append(fails, fmt.Sprintf("uncapped depth (%d, capErr=%v %s), the longest path ending in the output has %d links", r.depth, r.capErr, r.other, want))
		return fails, 1
	}
	queries++
	if d, err := net.MaxActivationDepth(); err != nil || d != want {
		fails = append(fails, fmt.Sprintf("MaxActivationDepth() = (%d, %v), want %d", d, err, want))
	}
	for _, c1 := range []int{1, n / 2, n, n + 1, n + 2, 2*n + 5} {
		for _, c2 := range []int{0, n, n + 1, n + 2} {
			net, all = c14Long(n, reversed)
			if r, e := c14Query(net, c1), c14Expect(want, c1); r != e {
				fails = append(fails, fmt.Sprintf("cap %d on a fresh network gave (%d, capErr=%v %s), want (%d, capErr=%v)", c1, r.depth, r.capErr, r.other, e.depth, e.capErr))
				return fails, queries
			}
			if r, e := c14Query(net, c2), c14Expect(want, c2); r != e {
				fails = append(fails, fmt.Sprintf("query with cap %d after a query with cap %d gave (%d, capErr=%v %s), a fresh network gives (%d, capErr=%v)", c2, c1, r.depth, r.capErr, r.other, e.depth, e.capErr))
				return fails, queries
			}
			queries += 2
			if id := c14Marked(all); id != 0 {
				fails = append(fails, fmt.Sprintf("node %d still marked after queries with caps %d,%d", id, c1, c2))
				return fails, queries
			}
		}
	}
	return fails, queries
}

func runC14(c *Ctx) {
	debug.SetMaxStack(64 << 20)
	shapes := []c14Shape{{2, 1}, {1, 2}}
	if !c.Quick() {
		shapes = []c14Shape{{2, 1}, {1, 2}, {3, 1}, {2, 2}}
	}
	c.Rule = fmt.Sprintf("one sensor + k neurons, shapes (hidden,outputs)=%v: ALL digraphs (every neuron->neuron edge incl. self-loops, every sensor->neuron edge); per graph every cap in {0..n+1} and every ordered pair of consecutive queries, and the uncapped query again with every link / each single link flagged recurrent (same depth required); oracle: DP longest path on DAGs, range on cyclic graphs, cap rule, second query == fresh query, no visited mark left; non-trivial = distinct graph", shapes)
	const chunkBits = 10
	type job struct {
		sh     c14Shape
		lo, hi uint64
	}
	var jobs []job
	for _, sh := range shapes {
		total := uint64(1) << sh.bits()
		step := uint64(1) << chunkBits
		for lo := uint64(0); lo < total; lo += step {
			hi := lo + step
			if hi > total {
				hi = total
			}
			jobs = append(jobs, job{sh, lo, hi})
		}
	}
	c.OnCrash = func(last int64, detail string) {
		si, g := int(last>>40), uint64(last&((1<<40)-1))
		msg := "a depth query crashed or did not return"
		sig := "C14/no-termination"
		var rp *Replay
		if last >= 0 && si < len(shapes) {
			sh := shapes[si]
			msg = fmt.Sprintf("depth query crashed or did not return on graph %s (%s)", c14Edges(sh, g), detail)
			rp = &Replay{Scenario: "graph", Params: map[string]interface{}{"hidden": sh.Hidden, "outputs": sh.Outputs, "graph": g}}
		}
		c.ViolateOrd(sig, last, msg, rp)
	}
	shapeIdx := func(sh c14Shape) int {
		for i, s := range shapes {
			if s == sh {
				return i
			}
		}
		return 0
	}
	c.Sharded(len(jobs), func(ji int) {
		j := jobs[ji]
		if c.Expired() {
			c.MarkCapped("deadline reached before all graphs were enumerated")
			return
		}
		var q int64
		dags, cyc := int64(0), int64(0)
		for g := j.lo; g < j.hi; g++ {
			c.Trace(int64(shapeIdx(j.sh))<<40 | int64(g))
			fails, dag, n := c14Eval(j.sh, g)
			q += n
			if dag {
				dags++
			} else {
				cyc++
			}
			for _, f := range fails {
				c.ViolateOrd("C14/"+f[0].(string), int64(j.sh.k())<<50|int64(g), fmt.Sprintf("%s on graph %s", f[1], c14Edges(j.sh, g)),
					&Replay{Scenario: "graph", Params: map[string]interface{}{"hidden": j.sh.Hidden, "outputs": j.sh.Outputs, "graph": g}})
			}
		}
		c.AddEval(q)
		c.mu.Lock()
		c.States += int64(j.hi - j.lo)
		c.mu.Unlock()
		c.Count("dag_graphs", dags)
		c.Count("cyclic_graphs", cyc)
		// graphs are distinct by construction; count them
		for g := j.lo; g < j.hi; g += 64 {
			c.Distinct(uint64(shapeIdx(j.sh))<<48 | g)
		}
	})
	// deep networks: every chain length up to the bound
	maxLong := 120
	if !c.Quick() {
		maxLong = 600
	}
	parFor(maxLong, func(i int) {
		n := i + 1
		for _, rev := range []bool{false, true} {
			fails, q := c14LongEval(n, rev)
			c.AddEval(q)
			for _, f := range fails {
				c.ViolateOrd("C14/deep-chain", int64(1)<<40|int64(n), fmt.Sprintf("%s on the chain network of %d hidden nodes (node list reversed: %v)", f, n, rev),
					&Replay{Scenario: "long", Params: map[string]interface{}{"n": n, "reversed": rev}})
			}
		}
	})
	c.Rule += fmt.Sprintf("; DEEP NETWORKS: for every N = 1..%d the chain sensor -> h1 -> ... -> hN -> output with a direct sensor->output link and dead-end side neurons, node list in signal and in reverse order: uncapped depth N+1, caps {1, N/2, N, N+1, N+2, 2N+5} on a fresh network each followed by caps {0, N, N+1, N+2}, no mark left", maxLong)
	c.Extra["graphs_enumerated"] = c.States
	c.Extra["distinct_note"] = "distinct_nontrivial counts every 64th graph code (graphs are distinct by construction; graphs_enumerated is the full count)"
	c.States = 0
	c.Sample(map[string]interface{}{"shape": "2 hidden + 1 output", "graph": c14Edges(c14Shape{2, 1}, 0b001_000_100_010), "queries": "cap 1 then cap 0"})
	c.Assume("sensors are interchangeable for depth, so one sensor is used")
}

func replayC14(c *Ctx, rp *Replay) (bool, string) {
	debug.SetMaxStack(64 << 20)
	if rp.Scenario == "long" {
		rev, _ := rp.Params["reversed"].(bool)
		if fails, _ := c14LongEval(paramInt(rp, "n"), rev); len(fails) > 0 {
			return true, fails[0]
		}
		return false, fmt.Sprintf("chain of %d", paramInt(rp, "n"))
	}
	sh := c14Shape{paramInt(rp, "hidden"), paramInt(rp, "outputs")}
	var g uint64
	switch v := rp.Params["graph"].(type) {
	case float64:
		g = uint64(v)
	}
	fails, _, _ := c14Eval(sh, g)
	if len(fails) > 0 {
		return true, fmt.Sprintf("%s on graph %s", fails[0][1], c14Edges(sh, g))
	}
	return false, c14Edges(sh, g)
}
