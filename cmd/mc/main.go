// Command mc is the model-checking harness for the goNEAT properties C01..C20.
//
//	mc <ID> --tier quick|thorough          run the check, write evidence/<ID>.json
//	mc <ID> --replay <file>                re-execute one recorded violation
//	mc worker <ID> <tier> <k> <n> <out>    internal: one shard of a sharded check
//
// Exit status: 0 property held on everything explored (known findings are
// printed as KNOWN-FINDING lines), 1 violation (a line "VIOLATION property=<id>
// replay=<path>" is printed), 2 tooling error (never a verdict).
package main

import (
	"fmt"
	"os"
	"runtime/debug"
	"runtime/pprof"
	"sort"
	"strconv"
	"strings"

	"github.com/yaricom/goNEAT/v4/neat"
	"github.com/yaricom/goNEAT/v4/neat/vmap"
)

type checkFn func(c *Ctx)

type checkDef struct {
	run    checkFn
	level  string
	replay func(c *Ctx, r *Replay) (violated bool, msg string)
}

var checks = map[string]*checkDef{}

func register(id, level string, run checkFn, replay func(c *Ctx, r *Replay) (bool, string)) {
	checks[id] = &checkDef{run: run, level: level, replay: replay}
}

func usage() {
	ids := make([]string, 0, len(checks))
	for k := range checks {
		ids = append(ids, k)
	}
	sort.Strings(ids)
	fmt.Fprintf(os.Stderr, "usage: mc <ID> --tier quick|thorough | mc <ID> --replay <file>\nknown ids: %s\n", strings.Join(ids, " "))
	os.Exit(2)
}

func main() {
	neat.LogLevel = neat.LogLevelError
	debug.SetGCPercent(400)
	if len(os.Args) < 2 {
		usage()
	}
	if os.Args[1] != "C16RACEPASS" {
		// iteration order of every map the instrumenter could identify is the harness's (C17 varies it)
		vmap.SetOrder(vmap.Ascending)
	}
	if os.Args[1] == "worker" {
		if len(os.Args) != 7 {
			usage()
		}
		k, _ := strconv.Atoi(os.Args[4])
		n, _ := strconv.Atoi(os.Args[5])
		runWorker(os.Args[2], os.Args[3], k, n, os.Args[6])
		return
	}
	id := os.Args[1]
	def, ok := checks[id]
	if !ok {
		usage()
	}
	tier := os.Getenv("VERIF_TIER")
	replay := ""
	for i := 2; i < len(os.Args); i++ {
		switch os.Args[i] {
		case "--tier":
			if i+1 < len(os.Args) {
				tier = os.Args[i+1]
				i++
			}
		case "--replay":
			if i+1 < len(os.Args) {
				replay = os.Args[i+1]
				i++
			}
		default:
			usage()
		}
	}
	if tier == "" {
		tier = "quick"
	}
	if tier != "quick" && tier != "thorough" {
		usage()
	}
	c := newCtx(id, tier, def.level)
	if replay != "" {
		os.Exit(runReplay(c, def, replay))
	}
	defer func() {
		if r := recover(); r != nil {
			fmt.Fprintf(os.Stderr, "TOOLING-ERROR property=%s: %v\n%s\n", id, r, debug.Stack())
			os.Exit(2)
		}
	}()
	if pf := os.Getenv("VERIF_CPUPROFILE"); pf != "" {
		f, _ := os.Create(pf)
		_ = pprof.StartCPUProfile(f)
		def.run(c)
		pprof.StopCPUProfile()
		f.Close()
	} else {
		def.run(c)
	}
	os.Exit(c.finish())
}
