package main

import (
	"fmt"
	"os"
	"sort"
	"strconv"
	"strings"
)

// Generic driver for the epoch-level checks (C01-epochs, C02, C03, C09, C10):
// every scenario's deviation ball is enumerated by E1, the selected oracles run
// inside every execution.

type epochPlan struct {
	prop      string
	oracles   oracleSet
	scenarios []EpochScenario
	maxDev    int
	// deepDev / deepScenarios: a subset explored one deviation deeper (thorough)
	deepDev       int
	deepScenarios []EpochScenario
	shards        int // first-level shards per deep scenario
	// baseScenarios: large populations of which only the base execution of every policy is run (0 deviations)
	baseScenarios []EpochScenario
}

func epochsFor(row CfgRow) int {
	if row.Drop == 1 {
		return 8
	}
	return 6
}

var allPolicies = []string{"Z", "M", "H", "A", "R1", "R2", "R3"}
var quickPolicies = []string{"M", "A", "R1", "R2", "R3"}

// buildScenarios enumerates cfg rows x policies and rotates the remaining
// dimensions (seed, landscape, mode) so that every value of each meets every
// cfg row and every policy at least once over the list.
func buildScenarios(rows int, policies, seeds, modes []string, fits []int, full bool) (out []EpochScenario) {
	pick := func(r, k int) string {
		m := modes[k%len(modes)]
		// the parallel executor serialises every baby (expensive): small populations only
		if strings.HasPrefix(m, "par") && cfgRows[r].Pop > 6 {
			m = "whole"
		}
		return m
	}
	defer func() {
		for i := range out {
			if _, hb := hbSpecs[out[i].Seed]; hb {
				out[i].Epochs = 3 // hand-built populations target the first turnovers (quotas, stealing, ageing)
			}
		}
	}()
	only := map[int]bool{}
	for _, f := range strings.Split(os.Getenv("VERIF_CFG_ONLY"), ",") { // investigation aid: restrict to these configuration rows
		if v, err := strconv.Atoi(f); err == nil {
			only[v] = true
			if v >= rows {
				rows = v + 1
			}
		}
	}
	for r := 0; r < rows; r++ {
		if len(only) > 0 && !only[r] {
			continue
		}
		for pi, p := range policies {
			if full {
				for fi, f := range fits {
					out = append(out, EpochScenario{Seed: seeds[(r+pi+fi)%len(seeds)], Cfg: r, Fit: f, Policy: p,
						Mode: pick(r, r+2*pi+fi), Epochs: epochsFor(cfgRows[r])})
				}
			} else {
				out = append(out, EpochScenario{Seed: seeds[(r+pi)%len(seeds)], Cfg: r, Fit: fits[(r+2*pi)%len(fits)], Policy: p,
					Mode: pick(r, r*3+pi), Epochs: epochsFor(cfgRows[r])})
			}
		}
	}
	return out
}

// deepScenarios: the scenarios whose deviation ball is explored one deviation deeper (d <= 2).
// Complete balls of that depth are only feasible for short runs (the number of executions grows
// with the square of the number of draws): populations of at most 4 organisms, 4 epochs.
func deepScenarios(seeds, modes []string, fits []int) (out []EpochScenario) {
	k := 0
	for r, row := range cfgRows {
		if row.Pop > 4 {
			continue
		}
		for _, p := range []string{"A", "R1"} {
			seed := seeds[k%len(seeds)]
			if _, hb := hbSpecs[seed]; hb || seed == "read" || seed == "multidisc" {
				seed = "xor"
			}
			m := modes[k%len(modes)]
			if strings.HasPrefix(m, "par") {
				m = "whole"
			}
			out = append(out, EpochScenario{Seed: seed, Cfg: r, Fit: fits[k%len(fits)], Policy: p, Mode: m, Epochs: 4})
			k++
		}
	}
	return out
}

type epochUnit struct {
	sc   EpochScenario
	dev  int
	k, n int
}

func runEpochPlan(c *Ctx, pl epochPlan) {
	var units []epochUnit
	for _, sc := range pl.scenarios {
		units = append(units, epochUnit{sc, pl.maxDev, 0, 1})
	}
	for _, sc := range pl.baseScenarios {
		units = append(units, epochUnit{sc, 0, 0, 1})
	}
	c.Extra["base_only_scenarios"] = len(pl.baseScenarios)
	for _, sc := range pl.deepScenarios {
		n := pl.shards
		if n <= 0 {
			n = 16
		}
		for k := 0; k < n; k++ {
			units = append(units, epochUnit{sc, pl.deepDev, k, n})
		}
	}
	c.Extra["scenarios"] = len(pl.scenarios)
	c.Extra["deep_scenarios"] = len(pl.deepScenarios)
	c.Extra["max_deviations"] = pl.maxDev
	if len(pl.deepScenarios) > 0 {
		c.Extra["max_deviations_deep"] = pl.deepDev
	}
	// most expensive units first (population size x epochs x deviation depth)
	cost := func(u epochUnit) int {
		r := cfgRows[u.sc.Cfg]
		k := r.Pop * r.Pop * u.sc.Epochs * u.sc.Epochs
		if strings.HasPrefix(u.sc.Mode, "par") {
			k *= 4
		}
		return k
	}
	sort.SliceStable(units, func(i, j int) bool { return cost(units[i]) > cost(units[j]) })
	c.Dynamic = true
	only := -1
	if v := os.Getenv("VERIF_ONLY"); v != "" {
		only, _ = strconv.Atoi(v)
	}
	c.Sharded(len(units), func(i int) {
		u := units[i]
		if only >= 0 && i != only {
			return
		}
		if c.Expired() {
			c.MarkCapped("internal deadline reached before every scenario was explored; the remaining scenarios were skipped")
			return
		}
		runEpochUnit(c, pl, u)
	})
}

func runEpochUnit(c *Ctx, pl epochPlan, u epochUnit) {
	cnt := map[string]int64{}
	var epochs int64
	ex := &Explorer{Policy: parsePolicy(u.sc.Policy), MaxDev: u.dev, ShardK: u.k, ShardN: u.n, Stop: c.Expired}
	ex.Body = func(x *Exec) {
		r := runEpochBody(c, u.sc, pl.oracles, x, cnt)
		epochs += int64(len(r.hash))
		c.Distinct(x.EndHash)
	}
	ex.OnPanic = func(x *Exec, r interface{}, stack string) {
		msg := fmt.Sprintf("panic during %s: %v", u.sc.String(), r)
		clause := "panic"
		if u.sc.Seed == "randsp" && isGenelessSymptom(fmt.Sprint(r)) {
			clause = "panic@random-population-single-point-geneless-child"
		}
		st := stack
		if i := strings.Index(st, "goNEAT"); i > 0 && len(st) > i+600 {
			st = st[:i+600]
		}
		rp := &Replay{Scenario: "epochs", Params: u.sc.params(), Answers: x.Answers(), Clause: msg, Trace: st}
		rp.Params["prop"] = pl.prop
		c.ViolateOrd(pl.prop+"/"+clause, int64(len(x.Points)), msg, rp)
	}
	// horizon: 20x the draws of the base execution
	ex.Horizon = 400000
	base := ex.RunOne(nil)
	ex.Horizon = 20*len(base.Points) + 2000
	if u.k == 0 {
		if err := ex.Gate(); err != nil {
			panic(fmt.Sprintf("%s: %v", u.sc.String(), err))
		}
		c.Sample(map[string]interface{}{"scenario": u.sc.String(), "draws_in_base_execution": len(base.Points), "first_answers": headInts(base.Answers(), 24)})
	}
	ex.Run()
	if ex.Stopped {
		c.MarkCapped("internal deadline reached inside a scenario; its deviation ball was not completed")
	}
	c.mu.Lock()
	c.Evaluations += ex.Executions
	c.Traces += ex.Executions
	c.Transitions += epochs
	c.mu.Unlock()
	c.Count("executions", ex.Executions)
	c.Count("horizon_aborts", ex.HorizonAborts)
	c.Count("draw_points", ex.Points)
	for k, v := range cnt {
		c.Count(k, v)
	}
}

func headInts(a []int, n int) []int {
	if len(a) > n {
		return a[:n]
	}
	return a
}

// replayEpochs re-executes one recorded execution with all oracles of the property.
func replayEpochs(prop string, oracles oracleSet) func(c *Ctx, rp *Replay) (bool, string) {
	return func(c *Ctx, rp *Replay) (bool, string) {
		sc := scenarioFromParams(rp.Params)
		if prop == "C02" {
			// the check keeps one executor value for all runs of a process: give the replayed run a predecessor
			// with other options (another population size)
			shareExecutors()
			other := EpochScenario{Seed: "xor", Cfg: 2, Fit: 2, Policy: "M", Mode: sc.Mode, Epochs: 2}
			if sc.Cfg == 2 {
				other.Cfg = 0
			}
			pre := &Explorer{Policy: parsePolicy("M"), Horizon: 400000}
			pre.Body = func(x *Exec) { runEpochBody(newCtx(c.ID, c.Tier, c.Level), other, 0, x, map[string]int64{}) }
			pre.OnPanic = func(x *Exec, r interface{}, stack string) {}
			pre.RunOne(nil)
		}
		ex := &Explorer{Policy: parsePolicy(sc.Policy), Horizon: 10 * (len(rp.Answers) + 1000)}
		cnt := map[string]int64{}
		var pan interface{}
		ex.Body = func(x *Exec) { runEpochBody(c, sc, oracles, x, cnt) }
		ex.OnPanic = func(x *Exec, r interface{}, stack string) { pan = r }
		x := ex.RunOne(rp.Answers)
		if pan != nil {
			return true, fmt.Sprintf("panic: %v", pan)
		}
		if len(x.Points) < len(rp.Answers) {
			return false, fmt.Sprintf("execution made only %d of the %d recorded draws", len(x.Points), len(rp.Answers))
		}
		if c.ViolationCount() > 0 {
			c.mu.Lock()
			defer c.mu.Unlock()
			return true, c.violations[0].Msg
		}
		return false, fmt.Sprintf("%s, %d draws", sc.String(), len(x.Points))
	}
}

func finishEpochEvidence(c *Ctx, what string) {
	c.Rule = what
	c.States = int64(len(c.distinct))
	c.Assume("random magnitudes come from the 3-point menu {0, 0.45, 0.95}; index draws are complete up to 6 and {0,1,n/2,n-1} beyond")
	c.Assume("Go toolchain, go build -overlay and the instrumenter (math/rand -> vrand import rewrite) are trusted")
}
