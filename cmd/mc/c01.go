package main

import (
	"fmt"
	"time"

	"github.com/yaricom/goNEAT/v4/neat/network"
)

// C01 — every genetic operator and epoch yields only well-formed genomes.
//
// (i) E2 GenomeSpace: breadth-first closure of the start genomes under all
// operators x all their choice sequences within the operator bound; the
// well-formedness predicate and retention of the ancestors' I/B/O nodes are
// evaluated on every transition. (ii) E1 multi-epoch runs with the predicate
// evaluated on every organism after construction and after every epoch.
// (iii) crossover of parents WITHOUT common ancestry (arbitrary aligned gene
// lists, as in random populations) through the C04 enumerator.

func init() { register("C01", "model_checking", runC01, replayC01) }

func c01Oracle(c *Ctx) func(t *gsTransition) {
	return func(t *gsTransition) {
		if t.Err != nil {
			c.Count("operator_returned_error", 1)
			return
		}
		if t.Result == nil {
			return
		}
		if len(t.Result.Genes) == 0 {
			gsViolate(c, "C01", t, "gene-less-result", "the operator produced a genome without genes, which cannot be expressed as a network")
			return
		}
		if msg := wellFormed(t.Result); msg != "" {
			gsViolate(c, "C01", t, "ill-formed", msg)
			return
		}
		if msg := retainsIO(t.Before, t.After); msg != "" {
			gsViolate(c, "C01", t, "io-node-lost", msg)
			return
		}
		if t.Partner != nil {
			if msg := retainsIO(t.Partner, t.After); msg != "" {
				gsViolate(c, "C01", t, "io-node-lost", msg+" (second parent)")
			}
		}
	}
}

// gsFamilies: each family of start genomes is searched in its own process with its
// own innovation numbering.
func gsFamilies() (fams [][]*GenomeSpec, names [][]string) {
	hb1 := hbGenome(1, 1, 0)
	hb2 := hbGenome(1, 2, 1)
	hb2.Genes[1].En = false // gene 2->4 disabled, as after a split
	wide := &GenomeSpec{ID: 1, Traits: []TraitSpec{{1, params8(0.1)}},
		Nodes: []NodeSpec{{1, network.InputNeuron, 17, 1}, {2, network.InputNeuron, 17, 1}, {3, network.InputNeuron, 17, 0}, {4, network.BiasNeuron, 17, 1},
			{5, network.OutputNeuron, xorSeed().Nodes[3].Act, 1}, {6, network.OutputNeuron, xorSeed().Nodes[3].Act, 0}},
		Genes: []GeneSpec{{In: 1, Out: 5, W: 0.5, Innov: 1, Mut: 0.5, En: true, Trait: 1}, {In: 2, Out: 6, W: -1, Innov: 2, Mut: -1, En: true, Trait: 0},
			{In: 4, Out: 6, W: 1e-7, Innov: 3, Mut: 0, En: false, Trait: 1}}}
	// a sensor with a larger id than a neuron (ids ascending, sensors not first)
	late := &GenomeSpec{ID: 1, Traits: []TraitSpec{{1, params8(0.1)}, {2, params8(0.7)}},
		Nodes: []NodeSpec{{1, network.InputNeuron, 17, 1}, {2, network.BiasNeuron, 17, 0}, {3, network.OutputNeuron, xorSeed().Nodes[3].Act, 1},
			{4, network.HiddenNeuron, xorSeed().Nodes[3].Act, 2}, {5, network.InputNeuron, 17, 1}},
		Genes: []GeneSpec{{In: 1, Out: 3, W: 0.5, Innov: 1, Mut: 0.5, En: true, Trait: 1}, {In: 1, Out: 4, W: -1, Innov: 2, Mut: -1, En: true, Trait: 2},
			{In: 4, Out: 3, W: 2, Innov: 3, Mut: 2, En: true, Trait: 1}}}
	// exactly one sensor, hidden ids between the sensor's and the output's (the layout of
	// NewPopulationRandom(in=1, ...)): inserting a hidden node into a child goes to index 1
	single := &GenomeSpec{ID: 1, Traits: []TraitSpec{{1, params8(0.2)}},
		Nodes: []NodeSpec{{1, network.InputNeuron, 17, 1}, {2, network.HiddenNeuron, xorSeed().Nodes[3].Act, 1}, {3, network.HiddenNeuron, xorSeed().Nodes[3].Act, 0},
			{4, network.OutputNeuron, xorSeed().Nodes[3].Act, 1}},
		Genes: []GeneSpec{{In: 1, Out: 2, W: 0.5, Innov: 1, Mut: 0.5, En: true, Trait: 1}, {In: 2, Out: 4, W: -1, Innov: 2, Mut: -1, En: true, Trait: 1},
			{In: 1, Out: 3, W: 2, Innov: 3, Mut: 2, En: true, Trait: 0}, {In: 3, Out: 4, W: 0.25, Innov: 4, Mut: 0.25, En: false, Trait: 1}}}
	// 16 genes (the "not tiny" branch of add-node: uniform random picks, 20 tries). Index draws over 16
	// genes are answered from {0, 1, 8, 15}: gene 0 leaves the bias, genes 1 and 15 are disabled, gene 8 is enabled
	big := &GenomeSpec{ID: 1, Traits: []TraitSpec{{1, params8(0.2)}, {2, params8(0.6)}},
		Nodes: []NodeSpec{{1, network.BiasNeuron, 17, 0}, {2, network.InputNeuron, 17, 1}, {3, network.InputNeuron, 17, 0}, {4, network.OutputNeuron, xorSeed().Nodes[3].Act, 1}}}
	for h := 5; h <= 8; h++ {
		big.Nodes = append(big.Nodes, NodeSpec{h, network.HiddenNeuron, xorSeed().Nodes[3].Act, 1 + h%2})
	}
	pairs := [][2]int{{1, 4}, {2, 4}, {3, 4}, {2, 5}, {5, 4}, {3, 6}, {6, 4}, {2, 7}, {3, 5}, {7, 4}, {3, 8}, {8, 4}, {5, 6}, {6, 7}, {7, 8}, {6, 8}}
	for i, pr := range pairs {
		en := !(i == 1 || i == 15 || i == 4 || i == 9)
		big.Genes = append(big.Genes, GeneSpec{In: pr[0], Out: pr[1], W: 0.25 * float64(i+1), Innov: int64(i + 1), Mut: 0.25 * float64(i+1), En: en, Trait: 1 + i%2})
	}
	return [][]*GenomeSpec{{xorSeed()}, {disconnectedSeed()}, {evolvedSeed()}, {hb1}, {hb2}, {wide}, {late}, {single}, {big}},
		[][]string{{"xor"}, {"xor-disconnected"}, {"evolved"}, {"xor+1hidden"}, {"xor+2hidden+disabled"}, {"wide-2outputs"}, {"late-sensor"}, {"single-sensor"}, {"sixteen-genes"}}
}

func gsBounds(c *Ctx) gsConfig {
	if c.Quick() {
		return gsConfig{MaxDepth: 3, OpDev: 2, ParamDev: 1, MateDev: 1, MateDepth: 1, BudgetS: 40, Policies: []string{"Z", "M", "A"}, MatePol: []string{"Z", "A"}, MaxStates: 20000, WithMating: true}
	}
	// thorough: the quick bounds one level deeper (breadth-first, so everything the quick tier covers is
	// covered first), under a per-family time cap that is reported
	return gsConfig{MaxDepth: 4, OpDev: 2, ParamDev: 1, MateDev: 1, MateDepth: 1, BudgetS: 1000, Policies: []string{"Z", "M", "A"}, MatePol: []string{"Z", "A"}, MaxStates: 300000, WithMating: true}
}

func runGenomeSpaces(c *Ctx, prop string, oracle func(t *gsTransition)) {
	fams, names := gsFamilies()
	// one search per family of start genomes (a family shares its innovation numbering)
	c.Sharded(len(fams), func(i int) {
		cfg := gsBounds(c)
		cfg.Seeds, cfg.SeedNames, cfg.Oracle, cfg.Prop = fams[i], names[i], oracle, prop
		if c.Quick() && (i == 2 || i == 4 || i == 7) {
			cfg.MaxDepth = 2 // the largest start genomes: one level less in the quick tier
		}
		if i == 8 {
			cfg.MaxDepth = 1 // the 16-gene genome is there for the operators' large-genome branches only
			if !c.Quick() {
				cfg.MaxDepth = 2
			}
			cfg.OpDev = 3
		}
		gs := newGenomeSpace(c, cfg)
		gs.Search()
		// operator sequences on one live object (what an operator leaves behind inside the object)
		L := 3
		if !c.Quick() && i != 8 {
			L = 4
		}
		gs.LiveChains(L, 1, []string{"M", "A"})
	})
}

func runC01(c *Ctx) {
	orc := c01Oracle(c)
	t0 := time.Now()
	stage := func(name string) {
		if !c.isWorker {
			c.Extra["stage_wall_s_"+name] = time.Since(t0).Seconds()
		}
		t0 = time.Now()
	}
	runGenomeSpaces(c, "C01", orc)
	stage("genome_space")
	// (iii) parents without common ancestry
	c04Enumerate(c, c04Bounds{K: c01K(c), Quick: true, Prop: "C01"}, func(cs *c04Case, t *gsTransition) { c01MateOracle(c, t) })
	stage("unrelated_parents")
	// (ii) epochs
	seeds := []string{"xor", "evolved", "disc", "rand", "randrec", "hb3", "read"}
	modes := []string{"whole", "par", "whole", "parrev"}
	fits := []int{0, 2, 5, 6}
	pl := epochPlan{prop: "C01", oracles: oWellFormed, maxDev: 1}
	if c.Quick() {
		pl.scenarios = buildScenarios(quickCfgRows, []string{"M", "A", "R1", "R2"}, seeds, modes, fits, false)
	} else {
		pl.scenarios = buildScenarios(len(cfgRows), allPolicies, seeds, modes, fits, false)
		pl.deepScenarios = deepScenarios(seeds, modes, fits)
		pl.deepDev, pl.shards = 2, 16
	}
	runEpochPlan(c, pl)
	stage("epochs")
	c.States = int64(len(c.distinct))
	c.Rule = "E2 explicit-state search: breadth-first closure of the start genomes {xor, xor-disconnected} and {evolved: hidden nodes, disabled gene, recurrent self-loop, nil trait} under 13 operators (7 parametric mutators, duplicate, add-node, add-link, connect-sensors in two innovation-record regimes, three crossovers with partners from the discovered set and every fitness order), each under every choice sequence within the operator deviation bound; states deduplicated by the canonical structural key; wellFormed + I/B/O retention evaluated on every transition. Plus crossover of parents without common ancestry (all pairs of gene lists over a k-innovation master list, complete choice trees) and E1 multi-epoch runs (see C02) with the predicate on every organism after construction and every epoch. states = distinct structural keys + distinct run end states, transitions = operator applications + populations produced"
	c.Assume("operator deviation bound and depth are bounds, not completeness; weights enter the state key only by sign class (no operator branches on exact weights)")
	c.Assume("Go toolchain, go build -overlay, the instrumenter and the accessor file are trusted")
}

func c01K(c *Ctx) int {
	if c.Quick() {
		return 4
	}
	return 5
}

func replayC01(c *Ctx, rp *Replay) (bool, string) {
	switch rp.Scenario {
	case "epochs":
		return replayEpochs("C01", oWellFormed)(c, rp)
	case "mate":
		return c04Replay(c, rp, func(cs *c04Case, t *gsTransition) { c01MateOracle(c, t) })
	}
	return replayOperator("C01", c01Oracle)(c, rp)
}

var _ = fmt.Sprintf

// c01MateOracle applies the C01 predicate to a crossover child of the C04 enumerator.
func c01MateOracle(c *Ctx, t *gsTransition) {
	if t.Err != nil || t.Result == nil {
		return
	}
	if len(t.Result.Genes) == 0 {
		clause := "gene-less-child"
		// the known finding: the walk of single-point crossover starts by skipping a gene of the
		// longer parent (the shorter parent's first innovation is the larger one) and then stops
		p1, p2 := t.Before.Genes, t.Partner.Genes
		if !(len(p1) < len(p2)) {
			p1, p2 = p2, p1
		}
		if t.Op == "mateSinglePoint" && len(p1) > 0 && len(p2) > 0 && p1[0].Innov > p2[0].Innov {
			clause = "gene-less-child@shorter-parent-starts-with-later-innovation"
		}
		c04Violate(c, "C01", t, clause, "the crossover produced a child without genes, which cannot be expressed as a network")
		return
	}
	if msg := wellFormed(t.Result); msg != "" {
		c04Violate(c, "C01", t, "ill-formed-child", msg)
		return
	}
	if msg := retainsIO(t.Before, t.After); msg != "" {
		c04Violate(c, "C01", t, "io-node-lost", msg)
		return
	}
	if msg := retainsIO(t.Partner, t.After); msg != "" {
		c04Violate(c, "C01", t, "io-node-lost", msg)
	}
}
