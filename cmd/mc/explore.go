package main

import (
	"fmt"
	"runtime/debug"

	"github.com/yaricom/goNEAT/v4/neat/vrand"
	"github.com/yaricom/goNEAT/v4/neat/vsched"
)

// E1 — choice-tree explorer over the random draws of a harness body.
//
// Every draw the library makes (through the vrand shim) is a choice point with a
// small finite menu. An execution is identified by its list of answers. The
// explorer runs the body with a prefix of forced answers, lets a base policy
// answer every later draw, and then recurses on every alternative answer of every
// policy-answered point while the number of deviations stays within the bound.

type drawKind uint8

const (
	dkF64 drawKind = iota
	dkF32
	dkIntn
	dkInt31n
	dkInt
)

var drawKindName = [...]string{"F64", "F32", "Intn", "Int31n", "Int"}

// floatMenu separates every constant threshold in the code (0.1 0.3 0.5 0.75 0.8)
// and every option-valued threshold p with 0 < p <= 0.95.
var floatMenu = [...]float64{0.0, 0.45, 0.95}

type drawPoint struct {
	Kind drawKind
	N    int // bound of Intn/Int31n, 0 otherwise
	M    int // menu size
	Ans  int // index into the menu
	TID  int // logical thread (0 unless a controlled schedule is running)
}

// Policy answers the draws that are not forced by the prefix.
type Policy struct {
	Name string // Z M H A R
	Seed uint64
}

func (p Policy) String() string {
	if p.Name == "R" {
		return fmt.Sprintf("R%d", p.Seed)
	}
	return p.Name
}

func splitmix64(x uint64) uint64 {
	x += 0x9e3779b97f4a7c15
	x = (x ^ (x >> 30)) * 0xbf58476d1ce4e5b9
	x = (x ^ (x >> 27)) * 0x94d049bb133111eb
	return x ^ (x >> 31)
}

func (p Policy) base(pos, m int) int {
	switch p.Name {
	case "Z":
		return 0
	case "M":
		return m / 2
	case "H":
		return m - 1
	case "A":
		return pos % m
	case "R":
		return int(splitmix64(p.Seed*0x100000001b3+uint64(pos)) % uint64(m))
	}
	panic("unknown policy " + p.Name)
}

func parsePolicy(s string) Policy {
	if len(s) > 1 && s[0] == 'R' {
		var seed uint64
		fmt.Sscanf(s[1:], "%d", &seed)
		return Policy{Name: "R", Seed: seed}
	}
	return Policy{Name: s}
}

type horizonAbort struct{}

// Exec is one execution in progress / finished: the hook that answers the draws.
type Exec struct {
	prefix  []int
	policy  Policy
	horizon int
	Points  []drawPoint
	fires   int
	Aborted bool // draw horizon crossed
	// per-thread mode (controlled schedules): answers are a function of
	// (thread, per-thread draw index) so that the data a thread computes does
	// not depend on the interleaving.
	perThread  bool
	seqOutside int
	EndHash    uint64
}

func (x *Exec) Answers() []int {
	a := make([]int, len(x.Points))
	for i, p := range x.Points {
		a[i] = p.Ans
	}
	return a
}

// stuck reports whether the tail of the trace is a short pattern repeated many
// times (a rejection loop that a constant policy cannot leave).
func (x *Exec) stuck() bool {
	pts := x.Points
	if n := len(pts); n >= 2 {
		// quick exit: a period <= 4 needs the last point to equal one of the 4 before it
		a := pts[n-1]
		hit := false
		for d := 1; d <= 4 && d < n; d++ {
			b := pts[n-1-d]
			if a.Kind == b.Kind && a.N == b.N && a.Ans == b.Ans {
				hit = true
				break
			}
		}
		if !hit {
			return false
		}
	}
	for p := 1; p <= 4; p++ {
		const reps = 6
		if len(pts) < p*reps {
			continue
		}
		ok := true
		base := len(pts) - p
		for r := 1; r < reps && ok; r++ {
			for j := 0; j < p; j++ {
				a, b := pts[base+j], pts[base-r*p+j]
				if a.Kind != b.Kind || a.N != b.N || a.Ans != b.Ans {
					ok = false
					break
				}
			}
		}
		if ok {
			return true
		}
	}
	return false
}

func (x *Exec) choose(kind drawKind, n, m int) int {
	pos := len(x.Points)
	if pos >= x.horizon {
		x.Aborted = true
		panic(horizonAbort{})
	}
	tid := 0
	var ans int
	if x.perThread {
		t, idx := vsched.NextDrawIndex()
		if idx < 0 { // no controlled execution in progress: one global sequence
			idx = x.seqOutside
			x.seqOutside++
		}
		tid = t
		// a constant policy cannot leave a rejection loop (add-link redraws until the two node indices
		// differ): every 12 draws of a thread the answer is rotated by one - still a pure function of
		// (thread, draw index), so a thread's data does not depend on the interleaving
		ans = (x.policy.base(t*7919+idx, m) + idx/12) % m
	} else {
		if x.stuck() {
			x.fires++
		}
		if pos < len(x.prefix) {
			ans = x.prefix[pos]
			if ans < 0 || ans >= m {
				panic(fmt.Sprintf("explorer: replayed answer %d out of range for menu %d at point %d (nondeterminism not owned)", ans, m, pos))
			}
		} else {
			ans = (x.policy.base(pos, m) + x.fires) % m
		}
	}
	x.Points = append(x.Points, drawPoint{Kind: kind, N: n, M: m, Ans: ans, TID: tid})
	return ans
}

func intMenu(n int) int {
	if n <= 6 {
		return n
	}
	return 4
}

func intValue(n, idx int) int {
	if n <= 6 {
		return idx
	}
	switch idx {
	case 0:
		return 0
	case 1:
		return 1
	case 2:
		return n / 2
	}
	return n - 1
}

func (x *Exec) Float64() float64 { return floatMenu[x.choose(dkF64, 0, len(floatMenu))] }
func (x *Exec) Float32() float32 { return float32(floatMenu[x.choose(dkF32, 0, len(floatMenu))]) }
func (x *Exec) Intn(n int) int   { return intValue(n, x.choose(dkIntn, n, intMenu(n))) }
func (x *Exec) Int31n(n int32) int32 {
	return int32(intValue(int(n), x.choose(dkInt31n, int(n), intMenu(int(n)))))
}
func (x *Exec) Int() int { return x.choose(dkInt, 0, 2) } // even / odd: both signs of RandSign

// TraceSig is a compact rendering of the (kind, bound) sequence of the draws.
func (x *Exec) TraceSig() uint64 {
	b := make([]byte, 0, len(x.Points)*3)
	for _, p := range x.Points {
		b = append(b, byte(p.Kind), byte(p.N), byte(p.N>>8))
	}
	return hashBytes(b)
}

// Explorer enumerates all executions of Body within MaxDev deviations of Policy.
type Explorer struct {
	Body    func(x *Exec) // runs the code under test and its oracles
	Policy  Policy
	MaxDev  int
	Horizon int
	Stop    func() bool
	// OnPanic receives a panic raised by the body (other than the horizon sentinel).
	OnPanic func(x *Exec, r interface{}, stack string)
	// first-level sharding: only first-deviation positions i with i%ShardN==ShardK
	ShardK, ShardN int

	Executions    int64
	HorizonAborts int64
	Points        int64
	Stopped       bool
	MaxPoints     int
}

// RunOne executes the body once with the given forced answers.
func (e *Explorer) RunOne(prefix []int) *Exec {
	x := &Exec{prefix: prefix, policy: e.Policy, horizon: e.Horizon}
	if x.horizon <= 0 {
		x.horizon = 200000
	}
	vrand.SetHook(x)
	func() {
		defer func() {
			vrand.SetHook(nil)
			if r := recover(); r != nil {
				if _, ok := r.(horizonAbort); ok {
					return
				}
				if e.OnPanic != nil {
					e.OnPanic(x, r, string(debug.Stack()))
					return
				}
				panic(r)
			}
		}()
		e.Body(x)
	}()
	e.Executions++
	e.Points += int64(len(x.Points))
	if len(x.Points) > e.MaxPoints {
		e.MaxPoints = len(x.Points)
	}
	if x.Aborted {
		e.HorizonAborts++
	}
	return x
}

// Run enumerates the deviation ball.
func (e *Explorer) Run() {
	if e.ShardN <= 0 {
		e.ShardN = 1
	}
	e.explore(nil, 0)
}

func (e *Explorer) explore(prefix []int, devs int) {
	if e.Stop != nil && e.Stop() {
		e.Stopped = true
		return
	}
	x := e.RunOne(prefix)
	if devs >= e.MaxDev {
		return
	}
	ans := x.Answers()
	pts := x.Points
	for i := len(prefix); i < len(pts); i++ {
		if devs == 0 && e.ShardN > 1 && i%e.ShardN != e.ShardK {
			continue
		}
		for alt := 0; alt < pts[i].M; alt++ {
			if alt == pts[i].Ans {
				continue
			}
			np := make([]int, i+1)
			copy(np, ans[:i])
			np[i] = alt
			e.explore(np, devs+1)
			if e.Stopped {
				return
			}
		}
	}
}

// Gate is the determinism gate: the base execution and one mid-tree execution are
// run twice each and must produce identical draw traces and end states.
func (e *Explorer) Gate() error {
	a := e.RunOne(nil)
	b := e.RunOne(nil)
	if a.TraceSig() != b.TraceSig() || len(a.Points) != len(b.Points) || a.EndHash != b.EndHash {
		return fmt.Errorf("nondeterminism not owned: two runs of the base execution differ (points %d vs %d, end state %x vs %x)",
			len(a.Points), len(b.Points), a.EndHash, b.EndHash)
	}
	if len(a.Points) > 2 {
		i := len(a.Points) / 2
		np := append([]int(nil), a.Answers()[:i+1]...)
		np[i] = (np[i] + 1) % a.Points[i].M
		c := e.RunOne(np)
		d := e.RunOne(np)
		if c.TraceSig() != d.TraceSig() || c.EndHash != d.EndHash {
			return fmt.Errorf("nondeterminism not owned: two runs of a mid-tree execution differ")
		}
	}
	return nil
}
