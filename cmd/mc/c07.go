package main

import (
	"fmt"
	"math"

	"github.com/yaricom/goNEAT/v4/neat"
	"github.com/yaricom/goNEAT/v4/neat/genetics"
	neatmath "github.com/yaricom/goNEAT/v4/neat/math"
	"github.com/yaricom/goNEAT/v4/neat/network"
)

// C07 — compatibility distance equals the NEAT formula under both methods.
//
// Bounded-exhaustive enumeration: every ordered pair of gene lists that are
// subsets of the innovation alphabet {1..k} (empty list included), each list
// under 3 mutation-number patterns, 6 coefficient settings, both methods,
// against set arithmetic for E, D and W.

func init() { register("C07", "exploration", runC07, replayC07) }

var c07Coeffs = [][3]float64{ // excess, disjoint, mutdiff
	{1, 1, 0.4}, {1, 2, 3}, {0, 0, 1}, {2, 0, 0}, {0, 0, 0}, {1e-3, 1e3, 1},
}

var c07MutVals = []float64{0, 0.5, -1.25, 3, 1e21}

func c07Mut(innov int64, pattern int) float64 {
	switch pattern {
	case 0:
		return 0
	case 1:
		return c07MutVals[int(innov)%len(c07MutVals)]
	default:
		return c07MutVals[(int(innov)*2+1)%len(c07MutVals)]
	}
}

func c07Genome(mask, pattern int) *genetics.Genome { return c07GenomeX(0, mask, pattern, 0) }

// c07GenomeX: `prefix` genes #1..#prefix followed by the genes #prefix+1+i for the set bits i of mask.
// attr 0: every gene enabled, weight 0.5, not recurrent; attr 1: the attributes the formula does NOT
// mention differ - every second gene disabled, other weights, some genes flagged recurrent.
func c07GenomeX(prefix, mask, pattern, attr int) *genetics.Genome {
	out := network.NewNNode(1000, network.OutputNeuron)
	nodes := []*network.NNode{}
	var genes []*genetics.Gene
	add := func(innov int) {
		in := network.NewSensorNode(innov, false)
		nodes = append(nodes, in)
		g := genetics.NewGene(0.5, in, out, false, int64(innov), c07Mut(int64(innov), pattern))
		if attr == 1 {
			g.IsEnabled = innov%2 == 0
			g.Link.ConnectionWeight = -3.25 * float64(innov)
			g.Link.IsRecurrent = innov%3 == 0
		}
		genes = append(genes, g)
	}
	for i := 1; i <= prefix; i++ {
		add(i)
	}
	for i := 0; mask>>uint(i) != 0; i++ {
		if mask&(1<<uint(i)) != 0 {
			add(prefix + i + 1)
		}
	}
	nodes = append(nodes, out)
	tr := neat.NewTrait()
	tr.Id = 1
	return genetics.NewGenome(mask*2+attr, []*neat.Trait{tr}, nodes, genes)
}

// c07Ref computes E, D, W by set arithmetic.
func c07Ref(a, b *genetics.Genome) (e, d int, w float64) {
	ma, mb := map[int64]float64{}, map[int64]float64{}
	maxA, maxB := int64(math.MinInt64), int64(math.MinInt64)
	for _, g := range a.Genes {
		ma[g.InnovationNum] = g.MutationNum
		if g.InnovationNum > maxA {
			maxA = g.InnovationNum
		}
	}
	for _, g := range b.Genes {
		mb[g.InnovationNum] = g.MutationNum
		if g.InnovationNum > maxB {
			maxB = g.InnovationNum
		}
	}
	matches := 0
	sum := 0.0
	for _, g := range a.Genes {
		if mo, ok := mb[g.InnovationNum]; ok {
			matches++
			sum += math.Abs(g.MutationNum - mo)
		} else if len(b.Genes) == 0 || g.InnovationNum > maxB {
			e++
		} else {
			d++
		}
	}
	for _, g := range b.Genes {
		if _, ok := ma[g.InnovationNum]; !ok {
			if len(a.Genes) == 0 || g.InnovationNum > maxA {
				e++
			} else {
				d++
			}
		}
	}
	if matches > 0 {
		w = sum / float64(matches)
	}
	return
}

type c07Case struct {
	MaskA, PatA, MaskB, PatB, Coeff int
	Prefix, AttrA, AttrB            int
}

func c07Opts(ci int, linear bool) *neat.Options {
	o := baseOptions()
	o.ExcessCoeff, o.DisjointCoeff, o.MutdiffCoeff = c07Coeffs[ci][0], c07Coeffs[ci][1], c07Coeffs[ci][2]
	if linear {
		o.GenCompatMethod = neat.GenomeCompatibilityMethodLinear
	} else {
		o.GenCompatMethod = neat.GenomeCompatibilityMethodFast
	}
	return o
}

func safeCompat(a, b *genetics.Genome, o *neat.Options) (v float64, pan interface{}) {
	defer func() {
		if r := recover(); r != nil {
			pan = r
		}
	}()
	return a.VCompatibility(b, o), nil
}

// c07Eval evaluates one case; returns a list of (clause, message) failures.
func c07Eval(cs c07Case, ga, gb *genetics.Genome) [][2]string {
	var fails [][2]string
	e, d, w := c07Ref(ga, gb)
	co := c07Coeffs[cs.Coeff]
	want := co[0]*float64(e) + co[1]*float64(d) + co[2]*w
	var vals [2]float64
	for mi, linear := range []bool{true, false} {
		name := "fast"
		if linear {
			name = "linear"
		}
		o := c07Opts(cs.Coeff, linear)
		v, pan := safeCompat(ga, gb, o)
		if pan != nil {
			fails = append(fails, [2]string{name + "/panic", fmt.Sprintf("%s method panicked: %v", name, pan)})
			continue
		}
		vals[mi] = v
		switch {
		case math.IsNaN(v):
			fails = append(fails, [2]string{name + "/nan", fmt.Sprintf("%s method returned NaN (E=%d D=%d W=%g expected %g)", name, e, d, w, want)})
		case v < 0:
			fails = append(fails, [2]string{name + "/negative", fmt.Sprintf("%s method returned %g < 0", name, v)})
		case !relClose(v, want, 1e-12):
			fails = append(fails, [2]string{name + "/formula", fmt.Sprintf("%s method returned %g, formula gives %g (E=%d D=%d W=%g)", name, v, want, e, d, w)})
		}
		// symmetry
		v2, pan2 := safeCompat(gb, ga, o)
		if pan2 == nil && !(math.IsNaN(v) && math.IsNaN(v2)) && !relClose(v, v2, 1e-12) {
			fails = append(fails, [2]string{name + "/symmetry", fmt.Sprintf("%s method: d(a,b)=%g but d(b,a)=%g", name, v, v2)})
		}
	}
	if len(fails) == 0 && !relClose(vals[0], vals[1], 1e-12) {
		fails = append(fails, [2]string{"methods-differ", fmt.Sprintf("linear=%g fast=%g", vals[0], vals[1])})
	}
	return fails
}

func c07Describe(cs c07Case, ga, gb *genetics.Genome) string {
	f := func(g *genetics.Genome) string {
		s := "{"
		for i, gn := range g.Genes {
			if i > 0 {
				s += " "
			}
			s += fmt.Sprintf("#%d(m=%g)", gn.InnovationNum, gn.MutationNum)
			if !gn.IsEnabled {
				s += "d"
			}
		}
		return s + "}"
	}
	co := c07Coeffs[cs.Coeff]
	return fmt.Sprintf("a=%s b=%s coeffs(excess=%g disjoint=%g mutdiff=%g)", f(ga), f(gb), co[0], co[1], co[2])
}

func runC07(c *Ctx) {
	k := 8
	if !c.Quick() {
		k = 10
	}
	nl := 1 << uint(k)
	c.Rule = fmt.Sprintf("all ordered pairs of gene lists that are subsets of innovations {1..%d} (empty list included) x 3 mutation-number patterns per list x %d coefficient settings x {linear, fast}; plus self/duplicate pairs; non-trivial = distinct (E,D,matching-count,coefficients) class; oracle = set arithmetic for E, D and mean |mutation difference|", k, len(c07Coeffs))
	genomes := make([]*genetics.Genome, nl*3)
	for m := 0; m < nl; m++ {
		for p := 0; p < 3; p++ {
			genomes[m*3+p] = c07Genome(m, p)
		}
	}
	total := len(genomes)
	parFor(total, func(i int) {
		ga := genomes[i]
		var evals int64
		classes := map[uint64]struct{}{}
		for j := 0; j < total; j++ {
			gb := genomes[j]
			for ci := range c07Coeffs {
				cs := c07Case{MaskA: i / 3, PatA: i % 3, MaskB: j / 3, PatB: j % 3, Coeff: ci}
				evals += 2
				fails := c07Eval(cs, ga, gb)
				e, d, _ := c07Ref(ga, gb)
				mt := len(ga.Genes) + len(gb.Genes) - e - d
				classes[uint64(e)<<40|uint64(d)<<24|uint64(mt)<<8|uint64(ci)] = struct{}{}
				for _, f := range fails {
					ord := int64(len(ga.Genes)+len(gb.Genes))<<40 | int64(i)<<20 | int64(j)
					c.ViolateOrd("C07/"+f[0], ord, f[1]+" for "+c07Describe(cs, ga, gb), &Replay{Scenario: "pair",
						Params: map[string]interface{}{"maskA": cs.MaskA, "patA": cs.PatA, "maskB": cs.MaskB, "patB": cs.PatB, "coeff": cs.Coeff},
						Trace:  c07Describe(cs, ga, gb)})
				}
			}
		}
		// zero against itself and against its duplicate
		for ci := range c07Coeffs {
			for _, linear := range []bool{true, false} {
				o := c07Opts(ci, linear)
				dup, err := ga.VDuplicate(ga.Id + 1000)
				if err != nil {
					continue
				}
				for which, other := range []*genetics.Genome{ga, dup} {
					evals++
					v, pan := safeCompat(ga, other, o)
					if pan != nil || v != 0 {
						if len(ga.Genes) == 0 && linear && (math.IsNaN(v)) {
							// empty-vs-empty NaN is reported through the pair enumeration (same root cause)
						}
						c.ViolateOrd(fmt.Sprintf("C07/self-%d-linear=%v", which, linear), int64(i), fmt.Sprintf("distance of a genome to itself/its duplicate is %v (panic=%v), want 0; mask=%b pattern=%d", v, pan, i/3, i%3),
							&Replay{Scenario: "self", Params: map[string]interface{}{"maskA": i / 3, "patA": i % 3, "coeff": ci, "linear": linear, "dup": which == 1}})
					}
				}
			}
		}
		c.AddEval(evals)
		for h := range classes {
			c.Distinct(h)
		}
	})
	// stage 2: long genomes and attributes the formula does not mention. Every length 0..maxPrefix of a
	// common run of genes #1..#L (whatever threshold on the genome size an implementation may have lies
	// inside) followed by every pair of tails over 3 further innovations, each genome with plain attributes
	// and with every second gene disabled / other weights / recurrence flags.
	maxPrefix := 48
	if !c.Quick() {
		maxPrefix = 160
	}
	parFor(maxPrefix+1, func(L int) {
		var gs []*genetics.Genome
		var meta [][3]int
		for m := 0; m < 8; m++ {
			for p := 0; p < 3; p++ {
				for at := 0; at < 2; at++ {
					gs = append(gs, c07GenomeX(L, m, p, at))
					meta = append(meta, [3]int{m, p, at})
				}
			}
		}
		var evals int64
		classes := map[uint64]struct{}{}
		for i, ga := range gs {
			for j, gb := range gs {
				for ci := range c07Coeffs {
					cs := c07Case{MaskA: meta[i][0], PatA: meta[i][1], MaskB: meta[j][0], PatB: meta[j][1], Coeff: ci, Prefix: L, AttrA: meta[i][2], AttrB: meta[j][2]}
					evals += 2
					e, d, _ := c07Ref(ga, gb)
					classes[uint64(L)<<48|uint64(e)<<40|uint64(d)<<24|uint64(meta[i][2]*2+meta[j][2])<<8|uint64(ci)] = struct{}{}
					for _, f := range c07Eval(cs, ga, gb) {
						ord := int64(1)<<50 | int64(L)<<30 | int64(i)<<10 | int64(j)
						c.ViolateOrd("C07/"+f[0], ord, f[1]+" for "+c07Describe(cs, ga, gb), &Replay{Scenario: "pair",
							Params: map[string]interface{}{"maskA": cs.MaskA, "patA": cs.PatA, "maskB": cs.MaskB, "patB": cs.PatB, "coeff": cs.Coeff, "prefix": L, "attrA": cs.AttrA, "attrB": cs.AttrB},
							Trace:  c07Describe(cs, ga, gb)})
					}
				}
			}
		}
		c.AddEval(evals)
		for h := range classes {
			c.Distinct(h)
		}
	})
	c.Rule += fmt.Sprintf("; STAGE 2: for every length L = 0..%d of a common run of genes #1..#L, all ordered pairs of genomes 'run + subset of 3 further innovations' x 3 mutation-number patterns x 2 attribute settings (plain; every second gene disabled, other weights, recurrence flags - attributes the formula does not mention) x %d coefficient settings x both methods", maxPrefix, len(c07Coeffs))
	c.Sample(map[string]interface{}{"a": "{#1 #3}", "b": "{#2 #4}", "coeffs": c07Coeffs[0], "expected": "E=1 D=3 W=0 -> 4"})
	c.Sample(c07Describe(c07Case{MaskA: 5, PatA: 1, MaskB: 6, PatB: 2, Coeff: 1}, genomes[5*3+1], genomes[6*3+2]))
	c.Extra["alphabet_k"] = k
	c.Extra["gene_lists"] = nl
	c.Assume("mutation numbers are drawn from {0,0.5,-1.25,3,1e21}; coefficients from a 6-row menu; innovation alphabet bounded by k; genomes longer than k genes only as a common run plus a 3-innovation tail")
}

func replayC07(c *Ctx, rp *Replay) (bool, string) {
	cs := c07Case{MaskA: paramInt(rp, "maskA"), PatA: paramInt(rp, "patA"), MaskB: paramInt(rp, "maskB"), PatB: paramInt(rp, "patB"), Coeff: paramInt(rp, "coeff"),
		Prefix: paramInt(rp, "prefix"), AttrA: paramInt(rp, "attrA"), AttrB: paramInt(rp, "attrB")}
	ga := c07GenomeX(cs.Prefix, cs.MaskA, cs.PatA, cs.AttrA)
	if rp.Scenario == "self" {
		linear, _ := rp.Params["linear"].(bool)
		o := c07Opts(cs.Coeff, linear)
		other := ga
		if d, _ := rp.Params["dup"].(bool); d {
			other, _ = ga.VDuplicate(1)
		}
		v, pan := safeCompat(ga, other, o)
		if pan != nil || v != 0 {
			return true, fmt.Sprintf("self distance %v panic=%v", v, pan)
		}
		return false, "self distance 0"
	}
	gb := c07GenomeX(cs.Prefix, cs.MaskB, cs.PatB, cs.AttrB)
	fails := c07Eval(cs, ga, gb)
	if len(fails) > 0 {
		return true, fails[0][1] + " for " + c07Describe(cs, ga, gb)
	}
	return false, c07Describe(cs, ga, gb)
}

var _ = neatmath.NullActivation
