package main

import (
	"fmt"
	"math"
	"strings"

	neatmath "github.com/yaricom/goNEAT/v4/neat/math"
	"github.com/yaricom/goNEAT/v4/neat/network"
)

// C13 — flushing makes a network indistinguishable from a freshly built one.
//
// E4 over networks x operation histories: ALL digraphs over {bias, input, output,
// hidden} (node order as in evolved genomes: the output precedes the hidden node)
// and, in thorough, over {bias, input, output, 2 hidden}; for the standard network
// and the fast solver every prior history h in Sigma^{<=2} (quick) / Sigma^{<=3}
// and every continuation s in Sigma^{<=3}: the observations of (h; Flush; s) must
// equal, bit for bit and step by step, those of s on a fresh instance.

func init() { register("C13", "model_checking", runC13, replayC13) }

type c13Shape struct{ Hidden int }

// node ids: 1 bias, 2 input, 3 output, 4.. hidden
func (s c13Shape) neurons() int { return 1 + s.Hidden }
func (s c13Shape) bits() uint   { n := s.neurons(); return uint(n*n + 2*n) }

func c13Spec(sh c13Shape, g uint64, recFlags bool, mixedActs bool) *GenomeSpec {
	act := neatmath.SigmoidSteepenedActivation
	sp := &GenomeSpec{ID: 1, Traits: []TraitSpec{{1, params8(0.1)}},
		Nodes: []NodeSpec{{1, network.BiasNeuron, neatmath.NullActivation, 0}, {2, network.InputNeuron, neatmath.NullActivation, 0}, {3, network.OutputNeuron, act, 0}}}
	for h := 0; h < sh.Hidden; h++ {
		a := act
		if mixedActs {
			a = []neatmath.NodeActivationType{neatmath.TanhActivation, neatmath.LinearActivation}[h%2]
		}
		sp.Nodes = append(sp.Nodes, NodeSpec{4 + h, network.HiddenNeuron, a, 0})
	}
	n := sh.neurons()
	innov := int64(1)
	add := func(in, out int, cyc bool) {
		w := []float64{0.5, -1.5, 0.75, 2, -0.25, 1.25}[int(innov)%6]
		sp.Genes = append(sp.Genes, GeneSpec{In: in, Out: out, W: w, Rec: cyc && recFlags, Innov: innov, Mut: w, En: true})
		innov++
	}
	for i := 0; i < n; i++ { // neuron i -> neuron j
		for j := 0; j < n; j++ {
			if g&(1<<uint(i*n+j)) != 0 {
				add(3+i, 3+j, i >= j) // self-loops and "backward" edges are the cycle-closing candidates
			}
		}
	}
	for s := 0; s < 2; s++ {
		for j := 0; j < n; j++ {
			if g&(1<<uint(n*n+s*n+j)) != 0 {
				add(1+s, 3+j, false)
			}
		}
	}
	return sp
}

// operations
const (
	opLoad1 = iota
	opLoad2
	opFwd1
	opFwd2
	opRecursive
	opRelax  // fast solver only
	opDepth0 // network only
	opDepth1 // network only
	opFlush  // a flush inside a history or a continuation
	// history-only operations (ways to use an instance before it is flushed)
	opActivate // network only: Activate()
	opBadLoad  // LoadSensors with the wrong number of values (an error the caller may ignore)
	opInspect  // the read-only accessors and printers
)

var c13OpNames = []string{"Load(0.5)", "Load(-1.5)", "Forward(1)", "Forward(2)", "Recursive", "Relax(3,1e-9)", "Depth(0)", "Depth(1)", "Flush", "Activate()", "Load(two values)", "Inspect"}

// c13HistoryAlphabet: the alphabet of histories = the continuation alphabet plus the history-only operations.
func c13HistoryAlphabet(fast bool) []int {
	a := c13Alphabet(fast)
	if !fast {
		a = append(a, opActivate)
	}
	return append(a, opBadLoad, opInspect)
}

func c13Alphabet(fast bool) []int {
	if fast {
		return []int{opLoad1, opLoad2, opFwd1, opFwd2, opRecursive, opRelax, opFlush}
	}
	return []int{opLoad1, opLoad2, opFwd1, opFwd2, opRecursive, opDepth0, opDepth1, opFlush}
}

func c13Seqs(alpha []int, maxLen int) [][]int {
	out := [][]int{{}}
	last := [][]int{{}}
	for l := 1; l <= maxLen; l++ {
		var next [][]int
		for _, p := range last {
			for _, a := range alpha {
				next = append(next, append(append([]int(nil), p...), a))
			}
		}
		out = append(out, next...)
		last = next
	}
	return out
}

type c13Inst struct {
	net  *network.Network
	fast network.Solver
}

// c13Direct: when set, the fast solver is built through the public constructor
// NewFastModularNetworkSolver with the bias links as ordinary connections from the bias neuron
// (index 0) instead of folded into the bias list - the form a hand-built or loaded model may have.
var c13Direct bool

func c13DirectSolver(sp *GenomeSpec) network.Solver {
	// neuron order of the fast solver: bias, input, outputs, hidden
	idx := map[int]int{}
	var acts []neatmath.NodeActivationType
	add := func(role network.NodeNeuronType) {
		for _, n := range sp.Nodes {
			if n.Role == role {
				idx[n.ID] = len(acts)
				acts = append(acts, n.Act)
			}
		}
	}
	add(network.BiasNeuron)
	add(network.InputNeuron)
	add(network.OutputNeuron)
	add(network.HiddenNeuron)
	var conns []*network.FastNetworkLink
	for _, g := range sp.Genes {
		if g.En {
			conns = append(conns, &network.FastNetworkLink{SourceIndex: idx[g.In], TargetIndex: idx[g.Out], Weight: g.W})
		}
	}
	nout := 0
	for _, n := range sp.Nodes {
		if n.Role == network.OutputNeuron {
			nout++
		}
	}
	return network.NewFastModularNetworkSolver(1, 1, nout, len(acts), acts, conns, make([]float64, len(acts)), nil)
}

func c13Build(sp *GenomeSpec, fast bool) (*c13Inst, error) {
	net, err := sp.Build().Genesis(1)
	if err != nil {
		return nil, err
	}
	// links flagged recurrent are also made time-delayed in the standard network (they then read the
	// source's PREVIOUS activation, i.e. the run-time fields lastActivation / lastActivation2 matter)
	for _, n := range net.BaseNodes() {
		for _, l := range n.Incoming {
			if l.IsRecurrent {
				l.IsTimeDelayed = true
			}
		}
	}
	in := &c13Inst{net: net}
	if fast {
		if c13Direct {
			in.fast = c13DirectSolver(sp)
		} else if in.fast, err = net.FastNetworkSolver(); err != nil {
			return nil, err
		}
	}
	return in, nil
}

// apply runs one operation and renders what it made observable.
func (in *c13Inst) apply(op int, b *strings.Builder) {
	var solver network.Solver = in.net
	if in.fast != nil {
		solver = in.fast
	}
	var res bool
	var err error
	func() {
		defer func() {
			if r := recover(); r != nil {
				err = fmt.Errorf("panic: %v", r)
			}
		}()
		switch op {
		case opLoad1:
			err = solver.LoadSensors([]float64{0.5})
			res = err == nil
		case opLoad2:
			err = solver.LoadSensors([]float64{-1.5})
			res = err == nil
		case opFwd1:
			res, err = solver.ForwardSteps(1)
		case opFwd2:
			res, err = solver.ForwardSteps(2)
		case opRecursive:
			res, err = solver.RecursiveSteps()
		case opRelax:
			res, err = solver.Relax(3, 1e-9)
		case opFlush:
			res, err = solver.Flush()
		case opActivate:
			res, err = in.net.Activate()
		case opBadLoad:
			err = solver.LoadSensors([]float64{0.25, 4})
			res = err == nil
		case opInspect:
			_, _ = solver.NodeCount(), solver.LinkCount()
			if in.fast == nil {
				_, _, _ = in.net.PrintActivation(), in.net.PrintInput(), in.net.OutputIsOff()
				_ = in.net.Complexity()
				cnt := 0
				for _, a := range in.net.BaseNodes() {
					for _, b := range in.net.BaseNodes() {
						_ = in.net.IsRecurrent(a, b, &cnt, 64)
						_ = in.net.HasEdgeBetween(int64(a.Id), int64(b.Id))
					}
				}
				_ = in.net.Nodes().Len()
			} else if st, ok := in.fast.(fmt.Stringer); ok {
				_ = st.String()
			}
			res = true
		case opDepth0, opDepth1:
			var d int
			d, err = in.net.MaxActivationDepthWithCap(op - opDepth0)
			fmt.Fprintf(b, "d%d", d)
			res = err == nil
		}
	}()
	es := ""
	if err != nil {
		es = err.Error()
		if i := strings.Index(es, "NNODE"); i >= 0 {
			es = es[:i] // node dumps contain addresses-free text but are long
		}
	}
	fmt.Fprintf(b, "%v|%s|", res, es)
	for _, o := range solver.ReadOutputs() {
		fmt.Fprintf(b, "%016x,", math.Float64bits(o))
	}
	b.WriteByte(';')
}

func (in *c13Inst) flush(b *strings.Builder) {
	var solver network.Solver = in.net
	if in.fast != nil {
		solver = in.fast
	}
	res, err := solver.Flush()
	if err != nil || !res {
		fmt.Fprintf(b, "FLUSH-FAILED(%v,%v)", res, err)
	}
}

func c13Run(sp *GenomeSpec, fast bool, h, s []int) (string, error) {
	in, err := c13Build(sp, fast)
	if err != nil {
		return "", err
	}
	var junk, b strings.Builder
	for _, op := range h {
		in.apply(op, &junk)
	}
	if h != nil {
		in.flush(&b)
	}
	for _, op := range s {
		in.apply(op, &b)
	}
	return b.String(), nil
}

func opsString(ops []int) string {
	var p []string
	for _, o := range ops {
		p = append(p, c13OpNames[o])
	}
	return "[" + strings.Join(p, " ") + "]"
}

type c13Case struct {
	Hidden int    `json:"hidden"`
	Graph  uint64 `json:"graph"`
	Rec    bool   `json:"rec_flags"`
	Mixed  bool   `json:"mixed_acts"`
	Fast   bool   `json:"fast"`
	Direct bool   `json:"direct_fast_solver"`
	H      []int  `json:"history"`
	S      []int  `json:"continuation"`
}

// c13Eval checks one network for one solver kind; returns the number of (h,s) pairs compared.
func c13Eval(c *Ctx, sh c13Shape, g uint64, rec, mixed, fast bool, hs, ss [][]int) int64 {
	sp := c13Spec(sh, g, rec, mixed)
	if len(sp.Genes) == 0 {
		return 0
	}
	if _, err := c13Build(sp, fast); err != nil {
		return 0
	}
	fresh := make([]string, len(ss))
	for i, s := range ss {
		fresh[i], _ = c13Run(sp, fast, nil, s)
	}
	var n int64
	for _, h := range hs {
		if len(h) == 0 {
			continue
		}
		for i, s := range ss {
			if len(s) == 0 {
				continue
			}
			got, _ := c13Run(sp, fast, h, s)
			n++
			if got != fresh[i] {
				cs := c13Case{Hidden: sh.Hidden, Graph: g, Rec: rec, Mixed: mixed, Fast: fast, Direct: c13Direct, H: h, S: s}
				params := map[string]interface{}{}
				js, _ := jsonMarshal(cs)
				_ = jsonUnmarshal(js, &params)
				kind := "Network"
				if fast {
					kind = "FastSolver"
					if c13Direct {
						kind = "FastSolver(constructed directly, bias links as connections)"
					}
				}
				msg := fmt.Sprintf("%s %s: after history %s and Flush the continuation %s observes %q, a fresh instance observes %q", kind, sp.Short(), opsString(h), opsString(s), got, fresh[i])
				c.ViolateOrd("C13/"+kind+"/flushed-differs-from-fresh", int64(len(sp.Genes))<<32|int64(len(h)+len(s))<<24|int64(g&0xffffff), msg, &Replay{Scenario: "net", Params: params, Clause: msg})
				return n
			}
		}
	}
	return n
}

func runC13(c *Ctx) {
	hl, sl := 2, 3
	shapes := []c13Shape{{1}}
	if !c.Quick() {
		hl = 3
		shapes = []c13Shape{{1}, {2}}
	}
	type job struct {
		sh     c13Shape
		lo, hi uint64
		picks  []uint64
	}
	var jobs []job
	for _, sh := range shapes {
		total := uint64(1) << sh.bits()
		step := uint64(8)
		if sh.Hidden == 2 {
			step = 64
		}
		for lo := uint64(0); lo < total; lo += step {
			hi := lo + step
			if hi > total {
				hi = total
			}
			jobs = append(jobs, job{sh: sh, lo: lo, hi: hi})
		}
	}
	if c.Quick() {
		// hand-picked two-hidden recurrent networks (bit layout: neuron i->j at i*3+j, bias->j at 9+j, input->j at 12+j;
		// neurons: 0 output(3), 1 hidden(4), 2 hidden(5))
		picks := []uint64{
			1<<(2*3+1) | 1<<(1*3+0) | 1<<(12+2),                          // input->h5->h4->out (feeding neuron later in the node list)
			1<<(2*3+1) | 1<<(1*3+0) | 1<<(12+2) | 1<<(1*3+2),             // + h4->h5 cycle
			1<<(1*3+0) | 1<<(12+1) | 1<<(1*3+1) | 1<<(9+0),               // self-loop on h4, bias to output
			1<<(1*3+0) | 1<<(2*3+0) | 1<<(12+1) | 1<<(12+2) | 1<<(0*3+1), // out->h4 feedback
			1<<(2*3+1) | 1<<(1*3+0) | 1<<(12+2) | 1<<(0*3+0) | 1<<(9+1),  // output self-loop
			1<<(1*3+2) | 1<<(2*3+0) | 1<<(12+1) | 1<<(2*3+2) | 1<<(9+2),
		}
		jobs = append(jobs, job{sh: c13Shape{2}, picks: picks})
	}
	c.Extra["history_max_len"] = hl
	c.Extra["continuation_max_len"] = sl
	c.Dynamic = true
	c.Sharded(len(jobs), func(ji int) {
		j := jobs[ji]
		if c.Expired() {
			c.MarkCapped("deadline reached before all networks were enumerated")
			return
		}
		var pairs, nets int64
		graphs := j.picks
		if graphs == nil {
			for g := j.lo; g < j.hi; g++ {
				graphs = append(graphs, g)
			}
		}
		for _, g := range graphs {
			for _, kind := range []int{0, 1, 2} {
				fast := kind > 0
				c13Direct = kind == 2 // (the vrand-free E4 workers are single-threaded per process: a package variable is safe here)
				alpha := c13Alphabet(fast)
				h, sq := hl, sl
				if j.picks == nil && j.sh.Hidden == 2 {
					h, sq = 2, 2 // all 2^15 two-hidden digraphs: histories and continuations of length <= 2
				}
				hs, ss := c13Seqs(c13HistoryAlphabet(fast), h), c13Seqs(alpha, sq)
				for _, variant := range [][2]bool{{false, false}, {true, true}} {
					n := c13Eval(c, j.sh, g, variant[0], variant[1], fast, hs, ss)
					pairs += n
					if n > 0 {
						nets++
						c.Distinct(uint64(j.sh.Hidden)<<60 | g<<3 | uint64(kind)<<1 | uint64(b2i(variant[0])))
					}
				}
			}
		}
		c.mu.Lock()
		c.Evaluations += pairs
		c.Traces += pairs
		c.Transitions += pairs
		c.mu.Unlock()
		c.Count("networks_x_solver_x_variant", nets)
	})
	if !c.isWorker {
		c13Chains(c)
	}
	c.States = int64(len(c.distinct))
	c.Sample(map[string]interface{}{"network": c13Spec(c13Shape{1}, 0b10_01_0110, true, false).Short(), "history": opsString([]int{opLoad1, opRecursive}), "continuation": opsString([]int{opLoad2, opFwd1, opFwd2})})
	c.Rule = fmt.Sprintf("networks: ALL digraphs over {bias, input, output, hidden} (4 neuron->neuron edges incl. self-loops and output->hidden, 4 sensor->neuron edges; the output precedes the hidden node in the node list)%s, each in two variants (plain; cycle-closing edges flagged recurrent and time-delayed in the standard network + mixed activation types); solvers: standard Network, the fast solver derived from it, and a fast solver constructed directly through NewFastModularNetworkSolver with the bias links as ordinary connections; alphabet: Load(0.5), Load(-1.5), Forward(1), Forward(2), Recursive, Relax(3,1e-9) [fast], Depth(0), Depth(1) [network], Flush; histories additionally Activate() [network], a load with the wrong number of values, and the read-only accessors / printers / graph queries; every history h of length 1..%d and every continuation s of length 1..%d: outputs, boolean results and errors of every step of s after (h; Flush) must equal those on a fresh instance bit for bit. Plus deep chains: chain-shaped networks (chain length 1-4 with the extra link into every chain node, and chain lengths 9, 24, 48 (thorough also 96, 160) with the extra link into the first, middle and last chain node; one extra recurrent link from the sensor / a side neuron / the output / the node itself, time-delayed or not, node list in signal or reverse order, with or without a direct sensor->output link; each plain, with a multiply / max module reading the link's target, and as a linear chain with a non-finite history; counter chain_networks) x 5 driving modes (Activate, ForwardSteps(1), alternating, fast solver ForwardSteps(1), fast solver Relax) x warm-up lengths 1..7 (long chains: 1, 2, 3, L/2, L, L+1, L+3) before the flush, then a sequence of 7 (long chains: L+4) steps compared step by step with a fresh instance. states = distinct (network, solver, variant), transitions = (h,s) pairs compared",
		map[bool]string{true: " plus six hand-picked two-hidden recurrent networks", false: " and ALL digraphs over {bias, input, output, 2 hidden} (9 + 6 edges; histories and continuations of length <= 2 for these)"}[c.Quick()], hl, sl)
	c.Assume("observations are the outputs, results and errors after every operation (node-internal state is observed only through them)")
}

func b2i(b bool) int {
	if b {
		return 1
	}
	return 0
}

// ---------------------------------------------------------------------------
// deep chains: long histories on structured networks
//
// The exhaustive part reaches 4-5 neurons and histories of 2-3 operations. Leftovers that need a signal
// to travel several layers before the flush are out of its reach, so a family of chain-shaped networks is
// driven with long step sequences: sensor -> n_L -> ... -> n_1 -> output, optionally a direct
// sensor -> output link, plus ONE extra link into a chain node that is time-delayed and/or recurrent,
// coming from the sensor, from a shallow side neuron, from the output or from the node itself; the node
// list in signal order or in reverse. For every warm-up length k: run the first k steps, flush, run the
// whole sequence; every step must match the run on a fresh instance.

type c13Chain struct {
	L       int  `json:"chain_len"`
	Target  int  `json:"extra_target"` // chain node index 1..L (1 is next to the output)
	Source  int  `json:"extra_source"` // 0 sensor, 1 side neuron fed by the sensor, 2 output, 3 the target itself
	Delayed bool `json:"time_delayed"`
	Reverse bool `json:"reverse_node_order"`
	Direct  bool `json:"direct_sensor_output_link"`
	Module  int  `json:"module"`      // 0 none; 1 / 2: a control node (multiply / max module) reads the extra link's target node and the side neuron and drives a further hidden node that feeds the output
	Hot     bool `json:"hot_history"` // chain nodes and output are linear and the history before the flush loads +Inf / -Inf / NaN (a diverged simulation): the signals are non-finite when the flush happens
	Mode    int  `json:"mode"`        // 0 Activate(), 1 ForwardSteps(1), 2 alternating, 3 fast solver ForwardSteps(1), 4 fast solver Relax
	WarmUp  int  `json:"warm_up"`
}

func (cs c13Chain) build() (*network.Network, network.Solver, error) {
	in, out := network.NewNNode(1, network.InputNeuron), network.NewNNode(2, network.OutputNeuron)
	chain := make([]*network.NNode, cs.L+1) // chain[1] feeds the output
	for i := 1; i <= cs.L; i++ {
		chain[i] = network.NewNNode(2+i, network.HiddenNeuron)
	}
	side := network.NewNNode(3+cs.L, network.HiddenNeuron)
	if cs.Hot {
		out.ActivationType = neatmath.LinearActivation
		for i := 1; i <= cs.L; i++ {
			chain[i].ActivationType = neatmath.LinearActivation
		}
	}
	if cs.Direct {
		out.ConnectFrom(in, 0.1)
	}
	out.ConnectFrom(chain[1], -0.4)
	for i := 1; i < cs.L; i++ {
		chain[i].ConnectFrom(chain[i+1], []float64{-0.3, 1, 0.75}[i%3])
	}
	chain[cs.L].ConnectFrom(in, 1.0)
	side.ConnectFrom(in, 0.2)
	var src *network.NNode
	switch cs.Source {
	case 0:
		src = in
	case 1:
		src = side
	case 2:
		src = out
	case 3:
		src = chain[cs.Target]
	}
	extra := chain[cs.Target].ConnectFrom(src, 0.25)
	extra.IsRecurrent = true
	extra.IsTimeDelayed = cs.Delayed
	all := []*network.NNode{in, out}
	if cs.Reverse {
		for i := 1; i <= cs.L; i++ {
			all = append(all, chain[i])
		}
	} else {
		for i := cs.L; i >= 1; i-- {
			all = append(all, chain[i])
		}
	}
	all = append(all, side)
	net := network.NewNetwork([]*network.NNode{in}, []*network.NNode{out}, all, 0)
	if cs.Module > 0 {
		mo := network.NewNNode(4+cs.L, network.HiddenNeuron)
		out.ConnectFrom(mo, 0.3)
		all = append(all, mo)
		ctrl := network.NewNNode(5+cs.L, network.HiddenNeuron)
		ctrl.ActivationType = []neatmath.NodeActivationType{neatmath.MultiplyModuleActivation, neatmath.MaxModuleActivation}[cs.Module-1]
		for _, src := range []*network.NNode{chain[cs.Target], side} {
			ctrl.Incoming = append(ctrl.Incoming, network.NewLink(1, src, ctrl, false))
		}
		ctrl.Outgoing = append(ctrl.Outgoing, network.NewLink(1, ctrl, mo, false))
		net = network.NewModularNetwork([]*network.NNode{in}, []*network.NNode{out}, all, []*network.NNode{ctrl}, 0)
	}
	if cs.Mode >= 3 {
		fs, err := net.FastNetworkSolver()
		return net, fs, err
	}
	return net, net, nil
}

var c13ChainInputs = []float64{0.9, 0.4, 0.7, 0.2, 0.8, 0.5, 0.3}

var c13HotInputs = []float64{math.Inf(1), math.Inf(-1), math.NaN()}

func c13ChainSteps(net *network.Network, solver network.Solver, mode int, n int, b *strings.Builder) {
	c13ChainStepsIn(net, solver, mode, n, b, c13ChainInputs)
}

func c13ChainStepsIn(net *network.Network, solver network.Solver, mode int, n int, b *strings.Builder, inputs []float64) {
	for i := 0; i < n; i++ {
		var res bool
		var err error
		func() {
			defer func() {
				if r := recover(); r != nil {
					err = fmt.Errorf("panic: %v", r)
				}
			}()
			if err = solver.LoadSensors([]float64{inputs[i%len(inputs)]}); err != nil {
				return
			}
			switch {
			case mode == 0 || (mode == 2 && i%2 == 0):
				res, err = net.Activate()
			case mode == 4:
				res, err = solver.Relax(2, 1e-9)
			default:
				res, err = solver.ForwardSteps(1)
			}
		}()
		es := ""
		if err != nil {
			es = err.Error()
			if k := strings.Index(es, "NNODE"); k >= 0 {
				es = es[:k]
			}
		}
		fmt.Fprintf(b, "%v|%s|", res, es)
		for _, o := range solver.ReadOutputs() {
			fmt.Fprintf(b, "%016x,", math.Float64bits(o))
		}
		b.WriteByte(';')
	}
}

// c13ChainRun returns (observations after warm-up+flush, observations on a fresh instance).
func c13ChainRun(cs c13Chain) (got, fresh string, err error) {
	T := len(c13ChainInputs)
	if cs.L > 4 {
		T = cs.L + 4 // a leftover deep inside a long chain needs the chain's length to reach the output
	}
	n0, s0, err := cs.build()
	if err != nil {
		return "", "", err
	}
	var f strings.Builder
	c13ChainSteps(n0, s0, cs.Mode, T, &f)
	n1, s1, _ := cs.build()
	var junk, g strings.Builder
	if cs.Hot {
		c13ChainStepsIn(n1, s1, cs.Mode, cs.WarmUp, &junk, c13HotInputs)
	} else {
		c13ChainSteps(n1, s1, cs.Mode, cs.WarmUp, &junk)
	}
	if ok, ferr := s1.Flush(); ferr != nil || !ok {
		fmt.Fprintf(&g, "FLUSH-FAILED(%v,%v)", ok, ferr)
	}
	c13ChainSteps(n1, s1, cs.Mode, T, &g)
	return g.String(), f.String(), nil
}

func c13Chains(c *Ctx) {
	var n int64
	nets := 0
	lengths := []int{1, 2, 3, 4, 9, 24, 48} // beyond 4: deep chains, extra link into the first, middle and last chain node only
	if !c.Quick() {
		lengths = append(lengths, 96, 160)
	}
	for _, L := range lengths {
		for target := 1; target <= L; target++ {
			if L > 4 && target != 1 && target != L/2 && target != L {
				continue
			}
			for source := 0; source <= 3; source++ {
				for _, delayed := range []bool{true, false} {
					for _, rev := range []bool{false, true} {
						for _, direct := range []bool{true, false} {
							for module := 0; module <= 3; module++ {
								nets++
								for mode := 0; mode <= 4; mode++ {
									for ki := 1; ki <= len(c13ChainInputs); ki++ {
										k := ki
										if L > 4 {
											// warm-up lengths around the chain's own length instead of 4..7
											switch ki {
											case 4:
												k = L / 2
											case 5:
												k = L
											case 6:
												k = L + 1
											case 7:
												k = L + 3
											}
										}
										cs := c13Chain{L: L, Target: target, Source: source, Delayed: delayed, Reverse: rev, Direct: direct, Module: module % 3, Hot: module == 3, Mode: mode, WarmUp: k}
										got, fresh, err := c13ChainRun(cs)
										if err != nil {
											continue
										}
										n++
										if got != fresh {
											params := map[string]interface{}{}
											js, _ := jsonMarshal(cs)
											_ = jsonUnmarshal(js, &params)
											msg := fmt.Sprintf("chain network %+v: after %d warm-up steps and Flush the %d-step sequence observes %q, a fresh instance observes %q", cs, k, len(c13ChainInputs), got, fresh)
											c.ViolateOrd("C13/chain/flushed-differs-from-fresh", int64(L*1000+k*10+mode), msg, &Replay{Scenario: "chain", Params: params, Clause: msg})
										}
									}
								}
							}
						}
					}
				}
			}
		}
	}
	c.mu.Lock()
	c.Evaluations += n
	c.Traces += n
	c.Transitions += n * int64(len(c13ChainInputs))
	c.mu.Unlock()
	c.Count("chain_networks", int64(nets))
	c.Count("chain_runs", n)
}

func replayC13(c *Ctx, rp *Replay) (bool, string) {
	if rp.Scenario == "chain" {
		var cs c13Chain
		js, _ := jsonMarshal(rp.Params)
		_ = jsonUnmarshal(js, &cs)
		got, fresh, err := c13ChainRun(cs)
		if err == nil && got != fresh {
			return true, fmt.Sprintf("chain network %+v: observes %q, fresh observes %q", cs, got, fresh)
		}
		return false, fmt.Sprintf("chain %+v", cs)
	}
	var cs c13Case
	js, _ := jsonMarshal(rp.Params)
	_ = jsonUnmarshal(js, &cs)
	sp := c13Spec(c13Shape{cs.Hidden}, cs.Graph, cs.Rec, cs.Mixed)
	c13Direct = cs.Direct
	fresh, _ := c13Run(sp, cs.Fast, nil, cs.S)
	got, _ := c13Run(sp, cs.Fast, cs.H, cs.S)
	if got != fresh {
		return true, fmt.Sprintf("%s: after %s and Flush, %s observes %q; fresh observes %q", sp.Short(), opsString(cs.H), opsString(cs.S), got, fresh)
	}
	return false, sp.Short()
}
