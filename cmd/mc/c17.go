package main

import (
	"bufio"
	"bytes"
	"context"
	"fmt"
	"io"
	"os"
	"os/exec"
	"runtime"
	"runtime/debug"
	"strconv"
	"strings"
	"sync/atomic"
	"time"

	"github.com/yaricom/goNEAT/v4/experiment"
	"github.com/yaricom/goNEAT/v4/neat"
	"github.com/yaricom/goNEAT/v4/neat/genetics"
	neatmath "github.com/yaricom/goNEAT/v4/neat/math"
	"github.com/yaricom/goNEAT/v4/neat/network"
	"github.com/yaricom/goNEAT/v4/neat/vmap"
	"github.com/yaricom/goNEAT/v4/neat/vrand"
	"github.com/yaricom/goNEAT/v4/neat/vtime"
)

// C17 — evolution is reproducible from the random seed.
//
// (i) explorer mode: every execution of the deviation ball of each multi-epoch
// scenario is run TWICE in the same process (the second time after unrelated work
// and garbage), the base executions a third time in a fresh process; the sequence
// of draws (kind and bound) and the bit-exact population after construction and
// after every epoch must agree.
// (ii) pass-through mode with the real math/rand: for each seed x scenario the run
// is repeated in-process (after unrelated evolution, with different GC and
// GOMAXPROCS settings) and in a second process.

func init() {
	register("C17", "model_checking", runC17, replayC17)
	register("C17CHILD", "other", runC17Child, nil)
}

// scenarios that exercise every random call site: several disconnected sensors, several
// node activators (roulette), structural, mating and trait mutations
func c17Scenarios(quick bool) []EpochScenario {
	seeds := []string{"xor", "evolved", "disc", "multidisc", "rand", "hb4"}
	modes := []string{"whole"}
	fits := []int{2, 5, 6, 0, 4}
	pols := []string{"M", "A", "R1", "R2"}
	rows := quickCfgRows
	if !quick {
		pols = allPolicies
		rows = len(cfgRows)
	}
	scs := buildScenarios(rows, pols, seeds, modes, fits, false)
	// every placement a tie between five species (see c17TweakFor)
	for i, pol := range pols {
		scs = append(scs, EpochScenario{Seed: "hbt", Cfg: []int{0, 5, 7, 2}[i%4], Fit: []int{2, 4, 5, 6}[i%4], Policy: pol, Mode: "whole", Epochs: 3})
	}
	// a modular start genome whose module nodes are mostly attached through the control gene only, under mating
	for i, pol := range pols {
		scs = append(scs, EpochScenario{Seed: "modular3", Cfg: []int{6, 4, 3, 10}[i%4], Fit: []int{2, 4, 5, 6}[i%4], Policy: pol, Mode: "whole", Epochs: 4})
	}
	return scs
}

func multiDiscSeed() *GenomeSpec {
	s := &GenomeSpec{ID: 1, Traits: []TraitSpec{{1, params8(0.1)}, {2, params8(0.4)}}}
	for i := 1; i <= 5; i++ {
		s.Nodes = append(s.Nodes, NodeSpec{i, network.InputNeuron, neatmath.NullActivation, 1})
	}
	s.Nodes = append(s.Nodes, NodeSpec{6, network.BiasNeuron, neatmath.NullActivation, 0}, NodeSpec{7, network.OutputNeuron, neatmath.SigmoidSteepenedActivation, 2}, NodeSpec{8, network.OutputNeuron, neatmath.TanhActivation, 1})
	s.Genes = []GeneSpec{{In: 6, Out: 7, W: 0.5, Innov: 1, Mut: 0.5, En: true, Trait: 1}, {In: 1, Out: 8, W: -1, Innov: 2, Mut: -1, En: true, Trait: 2}}
	return s
}

// c17Tweak: options used by the reproducibility runs (several activators => roulette draws).
func c17Tweak(o *neat.Options) {
	o.NodeActivators = []neatmath.NodeActivationType{neatmath.SigmoidSteepenedActivation, neatmath.TanhActivation, neatmath.LinearActivation, neatmath.GaussianActivation}
	o.NodeActivatorsProb = []float64{0.4, 0.3, 0.2, 0.1}
	if o.MutateConnectSensors < 0.5 {
		o.MutateConnectSensors = 0.5
	}
	if o.MutateAddNodeProb < 0.2 {
		o.MutateAddNodeProb = 0.2
	}
}

// c17TweakFor: the tweak of a scenario. The hand-built population "hbt" (five species) runs with all three
// compatibility coefficients 0 (legal: "all non-negative coefficient settings"): every baby is at distance 0
// from every representative, i.e. every placement is an exact tie between all species - the rule "the first
// of the nearest" decides each one.
func c17TweakFor(sc EpochScenario) func(*neat.Options) {
	if sc.Seed != "hbt" {
		return c17Tweak
	}
	return func(o *neat.Options) {
		c17Tweak(o)
		o.ExcessCoeff, o.DisjointCoeff, o.MutdiffCoeff = 0, 0, 0
	}
}

// ---------------------------------------------------------------------------
// (ii) seeded pass-through runs

type c17Seeded struct {
	Seed   int64
	Cfg    int
	Start  string
	Fit    int
	Epochs int
}

func (s c17Seeded) String() string {
	return fmt.Sprintf("seed=%d cfg=%d start=%s fit=%d epochs=%d", s.Seed, s.Cfg, s.Start, s.Fit, s.Epochs)
}

func c17SeededList(c *Ctx) []c17Seeded {
	n := 16
	if !c.Quick() {
		n = 128
	}
	starts := []string{"xor", "multidisc", "evolved", "disc", "rand"}
	var out []c17Seeded
	for i := 0; i < n; i++ {
		seed := []int64{0, 1, 42, c.Seed}[i%4] + int64(i/4)*1000003
		out = append(out, c17Seeded{Seed: seed, Cfg: (i * 5) % quickCfgRows, Start: starts[i%len(starts)], Fit: []int{5, 9, 2, 1, 6, 0, 9, 4}[i%8], Epochs: 10})
	}
	return out
}

// c17SpawnSizes: population sizes of the spawn stage - every size up to 64 and the neighbourhoods of the powers of
// two and of the round numbers up to 5000 (whatever size threshold an implementation may have is approached from both sides)
func c17SpawnSizes(quick bool) []int {
	var out []int
	for n := 1; n <= 64; n++ {
		out = append(out, n)
	}
	for _, b := range []int{100, 128, 200, 256, 500, 512, 1000, 1024, 2000, 2048, 4096, 5000} {
		if quick && b > 2048 && b != 4096 {
			continue
		}
		out = append(out, b-1, b, b+1)
	}
	return out
}

// c17Spawn: NewPopulation of n organisms from the XOR start genome with the real generator seeded; one fingerprint.
func c17Spawn(n int, seed int64) (h uint64, err error) {
	defer func() {
		if r := recover(); r != nil {
			err = fmt.Errorf("panic: %v", r)
		}
	}()
	opts := cfgRows[0].Options()
	opts.PopSize = n
	vrand.Seed(seed)
	pop, err := genetics.NewPopulation(startGenome("xor", xorSeed()), opts)
	if err != nil {
		return 0, err
	}
	return popHash(pop), nil
}

// c17Dumps: when set, the population is dumped (Write, WriteBySpecies) and verified between the
// fitness assignment and every turnover - read-only calls that must not influence evolution.
var c17Dumps bool

// c17RunSeeded: real math/rand seeded with s.Seed; returns one fingerprint per population produced.
func c17RunSeeded(s c17Seeded, keep bool) (hashes []uint64, keys []string, err error) {
	defer func() {
		if r := recover(); r != nil {
			err = fmt.Errorf("panic: %v", r)
		}
	}()
	row := cfgRows[s.Cfg]
	opts := row.Options()
	c17Tweak(opts)
	vrand.Seed(s.Seed)
	var pop *genetics.Population
	switch s.Start {
	case "rand":
		opts.MateMultipointAvgProb += opts.MateSinglepointProb
		opts.MateSinglepointProb = 0
		pop, err = genetics.NewPopulationRandom(3, 1, 2, false, 0.5, opts)
	case "multidisc":
		pop, err = genetics.NewPopulation(startGenome("multidisc", multiDiscSeed()), opts)
	default:
		pop, err = genetics.NewPopulation(startGenome(s.Start, seedByName(s.Start)), opts)
	}
	if err != nil {
		return nil, nil, err
	}
	if s.Start == "rand" {
		for _, o := range pop.Organisms {
			if len(o.Genotype.Genes) == 0 {
				return nil, nil, nil // outside the premise (gene-less random genome)
			}
		}
	}
	add := func() {
		hashes = append(hashes, popHash(pop))
		if keep {
			keys = append(keys, popKey(pop))
		}
	}
	add()
	ctx := opts.NeatContext()
	for e := 1; e <= s.Epochs; e++ {
		for i, o := range pop.Organisms {
			o.Fitness = fitnessOf(s.Fit, e, i, len(pop.Organisms), o)
		}
		if c17Dumps {
			_ = pop.WriteBySpecies(io.Discard)
			_ = pop.Write(io.Discard)
			_, _ = pop.Verify()
			for _, sp := range pop.Species {
				_ = sp.FindChampion()
				_, _ = sp.ComputeMaxAndAvgFitness()
			}
		}
		ex := processSeqExec
		if ex == nil {
			ex = &genetics.SequentialPopulationEpochExecutor{}
		}
		if err = ex.NextEpoch(ctx, e, pop); err != nil {
			return hashes, keys, err
		}
		add()
	}
	return hashes, keys, nil
}

// c17Evaluator records the fingerprint of every population it is handed and assigns fitness.
type c17Evaluator struct {
	fit    int
	hashes []uint64
}

func (e *c17Evaluator) GenerationEvaluate(ctx context.Context, pop *genetics.Population, g *experiment.Generation) error {
	e.hashes = append(e.hashes, popHash(pop))
	for i, o := range pop.Organisms {
		o.Fitness = fitnessOf(e.fit, g.Id+1, i, len(pop.Organisms), o)
	}
	g.Champion = pop.Organisms[0]
	return nil
}

// c17RunExperiment: the whole Experiment.Execute on a zero-value experiment after seeding the global source.
func c17RunExperiment(s c17Seeded) (hashes []uint64, err error) {
	defer func() {
		if r := recover(); r != nil {
			err = fmt.Errorf("panic: %v", r)
		}
	}()
	row := cfgRows[s.Cfg]
	opts := row.Options()
	c17Tweak(opts)
	opts.NumRuns, opts.NumGenerations = 2, 4
	start := seedByName("xor")
	if s.Start == "multidisc" {
		start = multiDiscSeed()
	} else if s.Start == "evolved" || s.Start == "disc" {
		start = seedByName(s.Start)
	}
	vrand.Seed(s.Seed)
	ev := &c17Evaluator{fit: s.Fit}
	exp := experiment.Experiment{Id: 0}
	name := "xor"
	if s.Start == "multidisc" || s.Start == "evolved" || s.Start == "disc" {
		name = s.Start
	}
	err = exp.Execute(opts.NeatContext(), startGenome(name, start), ev, nil)
	return ev.hashes, err
}

func hashesString(h []uint64) string {
	var b strings.Builder
	for _, v := range h {
		fmt.Fprintf(&b, "%016x ", v)
	}
	return strings.TrimSpace(b.String())
}

func firstHashDiff(a, b []uint64) int {
	for i := 0; i < len(a) && i < len(b); i++ {
		if a[i] != b[i] {
			return i
		}
	}
	if len(a) < len(b) {
		return len(a)
	}
	return len(b)
}

func firstDiff(a, b []string) string {
	for i := 0; i < len(a) && i < len(b); i++ {
		if a[i] != b[i] {
			la, lb := strings.Split(a[i], "\n"), strings.Split(b[i], "\n")
			for j := 0; j < len(la) && j < len(lb); j++ {
				if la[j] != lb[j] {
					x, y := la[j], lb[j]
					if len(x) > 300 {
						x = x[:300]
					}
					if len(y) > 300 {
						y = y[:300]
					}
					return fmt.Sprintf("population #%d (0 = constructed) first differs at line %d: %q vs %q", i, j, x, y)
				}
			}
			return fmt.Sprintf("population #%d differs", i)
		}
	}
	return "different number of populations"
}

// ---------------------------------------------------------------------------
// child process: prints fingerprints of the seeded runs and of the explorer base executions

func runC17Child(c *Ctx) {
	w := bufio.NewWriter(os.Stdout)
	defer w.Flush()
	c.Tier = os.Getenv("VERIF_C17_TIER")
	if c.Tier == "" {
		c.Tier = "quick"
	}
	c17Env(2)
	for i, s := range c17SeededList(c) {
		h, _, err := c17RunSeeded(s, false)
		fmt.Fprintf(w, "SEEDED %d %s %v\n", i, hashesString(h), err)
	}
	for i, sc := range c17Scenarios(c.Quick()) {
		x, r := c17Explorer(c, sc, nil)
		fmt.Fprintf(w, "BASE %d %016x %016x %d\n", i, x.EndHash, x.TraceSig(), len(r.hash))
	}
	c.Evaluations = 1
	c.Extra["explanation"] = "internal: second-process fingerprints"
}

func c17Explorer(c *Ctx, sc EpochScenario, prefix []int) (*Exec, *popRun) {
	var run *popRun
	ex := &Explorer{Policy: parsePolicy(sc.Policy), Horizon: 400000}
	ex.Body = func(x *Exec) { run = runEpochBodyOpts(c, sc, 0, x, map[string]int64{}, c17TweakFor(sc), false) }
	x := ex.RunOne(prefix)
	return x, run
}

// c17Env gives an execution its environment: the iteration order of the maps the instrumenter could
// identify and the clock. Executions that must agree are run in different environments, so that a
// dependence on either shows on every run and not by luck: 0 = ascending keys, clock at 2001-01-01
// advancing 1 ms per reading; 1 = descending keys, clock in 2033 advancing ~7 s per reading; 2 = keys
// rotated by half, clock in 1999 advancing 1 ns per reading. GOMAXPROCS is all processors / 1 / 3.
func c17Env(k int) {
	procs := []int{runtime.NumCPU(), 1, 3}[k%3] // the processor count is part of the environment too
	if procs < 2 && k%3 == 0 {
		procs = 2
	}
	runtime.GOMAXPROCS(procs)
	switch k % 3 {
	case 0:
		vmap.SetOrder(vmap.Ascending)
		vtime.SetClock(time.Date(2001, 1, 1, 0, 0, 0, 0, time.UTC), time.Millisecond)
	case 1:
		vmap.SetOrder(vmap.Descending)
		vtime.SetClock(time.Date(2033, 7, 19, 3, 14, 15, 926535897, time.UTC), 7000013*time.Microsecond)
	case 2:
		vmap.SetOrder(vmap.Rotated)
		vtime.SetClock(time.Date(1999, 12, 31, 23, 59, 59, 999999000, time.UTC), time.Nanosecond)
	}
}

func c17Garbage() {
	junk := make([][]byte, 0, 64)
	for i := 0; i < 64; i++ {
		junk = append(junk, make([]byte, 1<<uint(10+i%8)))
	}
	_ = junk
	m := map[int]*int{}
	for i := 0; i < 500; i++ {
		v := i
		m[i] = &v
	}
	runtime.GC()
}

// c17Verbose switches the library's process-wide log level between its default and "debug" with all
// four log sinks silenced: what is logged must not influence what is evolved.
func c17Verbose(on bool) {
	quiet := func(string) {}
	neat.DebugLog, neat.InfoLog, neat.WarnLog, neat.ErrorLog = quiet, quiet, quiet, quiet
	if on {
		neat.LogLevel = neat.LogLevelDebug
	} else {
		neat.LogLevel = ""
	}
}

func runC17(c *Ctx) {
	startGenomes = map[string]*genetics.Genome{} // every run of this process starts from the same genome objects
	sharedOptions = map[string]*neat.Options{}   // ... and is handed the same options value
	shareExecutors()                             // ... and uses the same executor values
	scs := c17Scenarios(c.Quick())
	seeded := c17SeededList(c)
	// second process first (it is independent of everything below)
	var childOut bytes.Buffer
	cmd := exec.Command(os.Args[0], "C17CHILD")
	if c.isWorker {
		cmd = nil
	}
	childSeeded, childBase := map[int]string{}, map[int]string{}
	if cmd != nil {
		cmd.Env = append(os.Environ(), "VERIF_NO_EVIDENCE=1", "VERIF_C17_TIER="+c.Tier, "GOGC=50", "GOMAXPROCS=3", "VERIF_SEED="+strconv.FormatInt(c.Seed, 10))
		cmd.Stdout = &childOut
		cmd.Stderr = os.Stderr
		if err := cmd.Run(); err != nil {
			panic("C17 child process failed: " + err.Error())
		}
		for _, line := range strings.Split(childOut.String(), "\n") {
			f := strings.SplitN(line, " ", 3)
			if len(f) < 3 {
				continue
			}
			i, _ := strconv.Atoi(f[1])
			if f[0] == "SEEDED" {
				childSeeded[i] = f[2]
			} else if f[0] == "BASE" {
				childBase[i] = f[2]
			}
		}
		// (ii) seeded runs: in-process repetition under different runtime settings, and the child's result
		var runs int64
		for i, s := range seeded {
			c17Env(0)
			h1, k1, err1 := c17RunSeeded(s, true)
			// unrelated evolution and garbage in between
			other := seeded[(i+1)%len(seeded)]
			other.Epochs = 2
			_, _, _ = c17RunSeeded(other, false)
			c17Garbage()
			oldGC := debug.SetGCPercent(20 + 40*(i%3))
			oldProcs := runtime.GOMAXPROCS(1 + i%4)
			c17Verbose(true)
			c17Env(1)
			h2, k2, err2 := c17RunSeeded(s, true)
			c17Verbose(false)
			debug.SetGCPercent(oldGC)
			runtime.GOMAXPROCS(oldProcs)
			runs += 3
			params := map[string]interface{}{"seed": s.Seed, "cfg": s.Cfg, "start": s.Start, "fit": s.Fit, "epochs": s.Epochs}
			if fmt.Sprint(err1) != fmt.Sprint(err2) || hashesString(h1) != hashesString(h2) {
				c.ViolateOrd("C17/seeded-rerun-differs", int64(i), fmt.Sprintf("[%s] two runs in one process with the global source seeded identically differ: %s", s, firstDiff(k1, k2)),
					&Replay{Scenario: "seeded", Params: params, Clause: "in-process rerun differs"})
				continue
			}
			// the same run with read-only dumps of the population before every turnover
			c17Dumps = true
			c17Env(2)
			h3, k3, err3 := c17RunSeeded(s, true)
			c17Dumps = false
			runs++
			if fmt.Sprint(err1) != fmt.Sprint(err3) || hashesString(h1) != hashesString(h3) {
				c.ViolateOrd("C17/dump-changes-evolution", int64(i), fmt.Sprintf("[%s] writing / verifying the population (read-only calls) between evaluation and turnover changes the outcome: %s", s, firstDiff(k1, k3)),
					&Replay{Scenario: "seeded", Params: params, Clause: "dump changes evolution"})
			}
			want := fmt.Sprintf("%s %v", hashesString(h1), err1)
			if got, ok := childSeeded[i]; ok && got != want {
				c.ViolateOrd("C17/seeded-second-process-differs", int64(i), fmt.Sprintf("[%s] the run in a second process (other GOGC/GOMAXPROCS) differs from the run in this process", s),
					&Replay{Scenario: "seeded", Params: params, Clause: "second process differs"})
			}
			for _, h := range h1 {
				c.Distinct(h)
			}
			// the same through Experiment.Execute (2 trials x 4 generations) on a zero-value experiment
			c17Env(0)
			e1, xerr1 := c17RunExperiment(s)
			c17Garbage()
			c17Env(1)
			e2, xerr2 := c17RunExperiment(s)
			c17Env(0)
			runs += 2
			if fmt.Sprint(xerr1) != fmt.Sprint(xerr2) || hashesString(e1) != hashesString(e2) {
				c.ViolateOrd("C17/experiment-rerun-differs", int64(i), fmt.Sprintf("[%s] two Experiment.Execute runs in one process with the global source seeded identically hand different populations to the evaluator (first difference at evaluation #%d)", s, firstHashDiff(e1, e2)),
					&Replay{Scenario: "seeded", Params: params, Clause: "experiment rerun differs"})
			}
		}
		// spawn stage: populations of many sizes, each spawned three times in the three environments
		var spawns int64
		for _, n := range c17SpawnSizes(c.Quick()) {
			var hs [3]uint64
			var es [3]string
			for e := 0; e < 3; e++ {
				c17Env(e)
				h, err := c17Spawn(n, 42+c.Seed)
				hs[e], es[e] = h, fmt.Sprint(err)
				spawns++
			}
			c17Env(0)
			if hs[0] != hs[1] || hs[0] != hs[2] || es[0] != es[1] || es[0] != es[2] {
				c.ViolateOrd("C17/spawn-differs", int64(n), fmt.Sprintf("NewPopulation of %d organisms from the same start genome with the generator seeded identically gives different populations in three runs (processor counts all / 1 / 3): fingerprints %x %x %x, errors %v", n, hs[0], hs[1], hs[2], es),
					&Replay{Scenario: "spawn", Params: map[string]interface{}{"n": n, "seed": 42 + c.Seed}, Clause: "spawn differs"})
			}
			c.Distinct(hs[0])
		}
		runs += spawns
		c.Count("spawned_populations", spawns)
		c.AddEval(runs)
		c.Count("seeded_runs", runs)
		c.Count("seeded_scenarios", int64(len(seeded)))
	}
	// (i) explorer mode: every execution of the ball twice; base executions vs the child
	c.Dynamic = true
	c.Sharded(len(scs), func(si int) {
		sc := scs[si]
		if c.Expired() {
			c.MarkCapped("deadline reached before every scenario was explored")
			return
		}
		var first map[string][2]uint64
		first = map[string][2]uint64{}
		pass := 0
		var execs, epochs int64
		ex := &Explorer{Policy: parsePolicy(sc.Policy), MaxDev: 1, Stop: c.Expired, Horizon: 400000}
		ex.OnPanic = func(x *Exec, r interface{}, stack string) {
			msg := fmt.Sprint(r)
			if strings.Contains(msg, "nondeterminism not owned") {
				// replaying recorded answers met a different draw: the sequence of draws is not a function of the answers
				c.ViolateOrd("C17/draw-sequence-diverges", int64(len(x.Points)), fmt.Sprintf("[%s] replaying the answers of an earlier execution met a different random draw after %d draws: %s", sc.String(), len(x.Points), msg),
					&Replay{Scenario: "epochs", Params: sc.params(), Answers: x.prefix, Clause: msg})
				return
			}
			c.ViolateOrd("C17/panic", int64(len(x.Points)), fmt.Sprintf("[%s] panic: %v", sc.String(), r), &Replay{Scenario: "epochs", Params: sc.params(), Answers: x.Answers(), Clause: msg})
		}
		var lastKeys []string
		ex.Body = func(x *Exec) {
			r := runEpochBodyOpts(c, sc, 0, x, map[string]int64{}, c17TweakFor(sc), false)
			epochs += int64(len(r.hash))
			_ = lastKeys
		}
		c17Env(0)
		base := ex.RunOne(nil)
		ex.Horizon = 20*len(base.Points) + 2000
		// pass 1 records, pass 2 (after garbage and an unrelated scenario) compares
		record := func(x *Exec) string {
			var b strings.Builder
			for i := 0; i < len(x.prefix); i++ {
				fmt.Fprintf(&b, "%d,", x.prefix[i])
			}
			return b.String()
		}
		ex.Body = func(x *Exec) {
			r := runEpochBodyOpts(c, sc, 0, x, map[string]int64{}, c17TweakFor(sc), false)
			epochs += int64(len(r.hash))
			key := record(x)
			cur := [2]uint64{x.EndHash, x.TraceSig()}
			if pass == 0 {
				first[key] = cur
				c.Distinct(x.EndHash)
				return
			}
			if prev, ok := first[key]; ok && prev != cur {
				what := "the populations differ"
				if prev[1] != cur[1] {
					what = "the sequence of random draws (kind and bound) differs"
				}
				// reproduce with text keys for the message
				r1 := runEpochBodyOpts(c, sc, 0, &Exec{prefix: x.prefix, policy: x.policy, horizon: x.horizon}, map[string]int64{}, c17TweakFor(sc), true)
				_ = r1
				rp := &Replay{Scenario: "epochs", Params: sc.params(), Answers: x.Answers(), Clause: what}
				c.ViolateOrd("C17/explorer-rerun-differs", int64(len(x.prefix)), fmt.Sprintf("[%s] the same execution (same answers to all random draws) run twice in one process differs: %s", sc.String(), what), rp)
			}
		}
		ex.Run()
		execs += ex.Executions
		c17Garbage()
		if si+1 < len(scs) {
			c17Explorer(c, scs[si+1], nil)
		}
		pass = 1
		ex.Executions = 0
		c17Verbose(true) // the second pass runs at log level "debug" (sinks silenced), in another environment
		c17Env(1)
		ex.Run()
		c17Env(0)
		c17Verbose(false)
		execs += ex.Executions
		if ex.Stopped {
			c.MarkCapped("deadline reached inside a scenario")
		}
		c.mu.Lock()
		c.Evaluations += execs
		c.Traces += execs
		c.Transitions += epochs
		c.mu.Unlock()
		c.Count("explorer_executions_incl_reruns", execs)
		c.Count("map_ranges_executed_over_2+_keys_in_instrumented_code", atomic.SwapInt64(&vmap.Ranges, 0))
		c.Count("map_ranges_with_keys_of_no_canonical_order", atomic.SwapInt64(&vmap.Unordered, 0))
		if si%7 == 0 {
			c.Sample(map[string]interface{}{"scenario": sc.String(), "draws_in_base_execution": len(base.Points)})
		}
	})
	if cmd != nil {
		// base executions against the second process
		var cmp int64
		for i, sc := range scs {
			want, ok := childBase[i]
			if !ok {
				continue
			}
			x, r := c17Explorer(c, sc, nil)
			got := fmt.Sprintf("%016x %016x %d", x.EndHash, x.TraceSig(), len(r.hash))
			cmp++
			if got != want {
				c.ViolateOrd("C17/explorer-second-process-differs", int64(i), fmt.Sprintf("[%s] the base execution differs between this process and a fresh process", sc.String()),
					&Replay{Scenario: "epochs", Params: sc.params(), Answers: x.Answers(), Clause: "second process differs"})
			}
		}
		c.AddEval(cmp)
		c.Count("base_executions_compared_with_second_process", cmp)
		c.Sample(map[string]interface{}{"seeded_run": seeded[1].String(), "compared": "this process twice (different GOGC / GOMAXPROCS, unrelated evolution in between) and a second process"})
	}
	c.States = int64(len(c.distinct))
	c.Rule = "(i) explorer mode: for every scenario (start genome incl. one with five disconnected sensors and random populations x configuration row x landscape x base policy; four node activators so that the activation roulette is drawn) EVERY execution within 1 deviation of the base policy is run twice in one process (second pass after garbage, a forced GC and an unrelated scenario, at log level debug with the sinks silenced; all runs of a process start from the same start genome objects) and the base executions a third time in a fresh process; the draw trace (kind and bound of every draw) and the bit-exact fingerprint of the population after construction and after each of 6-8 epochs must agree; one hand-built population of five species runs with all compatibility coefficients 0, so that every placement of a baby is an exact tie between all species. (ii) real math/rand: NewPopulation for every size 1..64 and the neighbourhoods of the powers of two and round numbers up to 4096 (5000), each three times in the three environments; seeds {0,1,42,VERIF_SEED}+k*1000003 x start genome x configuration x 10 epochs, run twice in-process from the same start genome object (unrelated evolution in between, different GOGC, GOMAXPROCS and log level), once with read-only dumps / verification of the population before every turnover, once in a second process, and twice through Experiment.Execute on a zero-value experiment. states = distinct population fingerprints, transitions = populations produced"
	c.Count("map_ranges_executed_over_2+_keys_in_instrumented_code", atomic.SwapInt64(&vmap.Ranges, 0))
	c.Count("map_ranges_with_keys_of_no_canonical_order", atomic.SwapInt64(&vmap.Unordered, 0))
	c.Rule += ". ENVIRONMENTS: the executions that must agree run under different answers to the two environment choices the harness owns besides the random draws - the iteration order of every map the instrumenter can identify syntactically (range statements are rewritten to iterate over harness-ordered keys: ascending in the first run, descending in the second, rotated by half in the second process / the dump run) the processor count (all / 1 / 3) and the clock (package time is replaced by a shim whose clock the harness sets: 2001 + 1 ms per reading, 2033 + 7 s per reading, 1999 + 1 ns per reading); a dependence of the evolved population on either therefore shows on every run"
	c.Assume("a map reached in a way the instrumenter cannot classify syntactically (through an interface, a function value, another package) keeps the runtime's order; dependence on it is then caught only because every execution is repeated (>= 2-3 times)")
	c.Assume("memory addresses cannot be chosen by the harness; dependence on them is looked for by repeating executions after garbage, with other GC settings and in a second process")
}

func replayC17(c *Ctx, rp *Replay) (bool, string) {
	startGenomes = map[string]*genetics.Genome{}
	sharedOptions = map[string]*neat.Options{}
	shareExecutors()
	defer c17Verbose(false)
	defer c17Env(0)
	if rp.Scenario == "spawn" {
		n := paramInt(rp, "n")
		seed := int64(paramInt(rp, "seed"))
		for k := 0; k < 5; k++ {
			c17Env(0)
			a, ea := c17Spawn(n, seed)
			c17Env(1 + k%2)
			b, eb := c17Spawn(n, seed)
			if a != b || fmt.Sprint(ea) != fmt.Sprint(eb) {
				return true, fmt.Sprintf("two identically seeded spawns of %d organisms differ", n)
			}
		}
		return false, fmt.Sprintf("spawn of %d", n)
	}
	if rp.Scenario == "seeded" {
		s := c17Seeded{Seed: int64(paramInt(rp, "seed")), Cfg: paramInt(rp, "cfg"), Start: paramStr(rp, "start"), Fit: paramInt(rp, "fit"), Epochs: paramInt(rp, "epochs")}
		if v, ok := rp.Params["seed"].(float64); ok {
			s.Seed = int64(v)
		}
		for k := 0; k < 5; k++ {
			c17Env(0)
			h1, k1, _ := c17RunSeeded(s, true)
			c17Garbage()
			c17Verbose(k%2 == 0)
			c17Env(1 + k%2)
			h2, k2, _ := c17RunSeeded(s, true)
			c17Verbose(false)
			if hashesString(h1) != hashesString(h2) {
				return true, "two identically seeded runs differ: " + firstDiff(k1, k2)
			}
			c17Env(0)
			e1, _ := c17RunExperiment(s)
			c17Env(1 + k%2)
			e2, _ := c17RunExperiment(s)
			if hashesString(e1) != hashesString(e2) {
				return true, "two identically seeded Experiment.Execute runs differ"
			}
		}
		return false, s.String()
	}
	sc := scenarioFromParams(rp.Params)
	for k := 0; k < 5; k++ {
		c17Env(0)
		a, _ := c17Explorer(c, sc, rp.Answers)
		c17Garbage()
		c17Verbose(k%2 == 0)
		c17Env(1 + k%2)
		b, _ := c17Explorer(c, sc, rp.Answers)
		c17Verbose(false)
		if a.EndHash != b.EndHash || a.TraceSig() != b.TraceSig() {
			return true, "the same execution run twice differs"
		}
	}
	return false, sc.String()
}
