package main

import (
	"context"
	"errors"
	"fmt"
	"strings"
	"time"

	"github.com/yaricom/goNEAT/v4/experiment"
	"github.com/yaricom/goNEAT/v4/neat"
	"github.com/yaricom/goNEAT/v4/neat/genetics"
)

// C20 — an experiment run follows its trial/generation protocol exactly.
//
// E1, complete: NumRuns x NumGenerations in {0..3}^2, observer present/absent,
// sequential/parallel executor, context cancelled before the start or not; every
// GenerationEvaluate call is a choice point with the answers {unsolved, solved,
// error, cancel-then-unsolved, cancel-then-solved}; the whole tree of answer
// scripts is enumerated. The real Execute / NewPopulation / NextEpoch run on a
// 4-organism population; a reference state machine written from the statement
// produces the expected notifications, recorded trials and error.

func init() { register("C20", "model_checking", runC20, replayC20) }

const (
	ansUnsolved = iota
	ansSolved
	ansError
	ansCancelUnsolved
	ansCancelSolved
	ansSolvedError // the evaluator marks the generation solved and then fails (e.g. while saving the winner)
	numAnswers
)

var c20AnsNames = []string{"unsolved", "solved", "error", "cancel+unsolved", "cancel+solved", "solved+error"}

var errC20Eval = errors.New("evaluator failed (scripted)")

// the evaluator's own failure may itself be (wrap) a context error - a sub-task of the evaluation that ran
// into its own timeout or was cancelled by the evaluator - while the context of the run is still alive
var errC20EvalKinds = []error{errC20Eval,
	fmt.Errorf("evaluation sub-task: %w", context.Canceled),
	fmt.Errorf("evaluation sub-task: %w", context.DeadlineExceeded)}

type c20Config struct {
	Runs      int  `json:"runs"`
	Gens      int  `json:"generations"`
	Observer  bool `json:"observer"`
	Parallel  bool `json:"parallel"`
	PreCancel bool `json:"cancel_before_start"`
	Deadline  bool `json:"deadline"` // the context ends by an expired deadline instead of an explicit cancel
	Prealloc  int  `json:"prealloc"` // > 0: Experiment.Trials pre-allocated with Runs+Prealloc entries (a re-used experiment)
	Stale     bool `json:"stale"`    // the pre-allocated entries hold the results of an earlier execution (two generations each, the first solved)
	Nested    bool `json:"nested"`   // the options travel in a context whose parent context already carries other options
	ErrKind   int  `json:"err_kind"` // what the evaluator's failure is: 0 a plain error, 1 wraps context.Canceled, 2 wraps context.DeadlineExceeded
}

// endableCtx is a context the harness can end at a chosen moment either as cancelled or as
// past its deadline (a real deadline cannot be placed at a particular evaluator call).
type endableCtx struct {
	context.Context
	done chan struct{}
	err  error
}

func (e *endableCtx) Done() <-chan struct{} { return e.done }
func (e *endableCtx) Err() error {
	select {
	case <-e.done:
		return e.err
	default:
		return nil
	}
}
func (e *endableCtx) Deadline() (time.Time, bool) { return time.Time{}, false }

type c20Seen struct {
	run, gen int
	pop      *genetics.Population
	orgs     []*genetics.Organism
	startTop bool
	solved   bool
}

type c20Harness struct {
	script  []int
	pos     int
	answers []int
	events  []string
	cancel  context.CancelFunc
	seen    []c20Seen
	startK  string
	trialOf map[*experiment.Trial]bool
	errKind int    // index into errC20EvalKinds
	curGens int    // generations notified in the current trial
	obsMsg  string // first discrepancy between a trial handed to the observer and the trial being run
}

func (h *c20Harness) GenerationEvaluate(ctx context.Context, pop *genetics.Population, g *experiment.Generation) error {
	a := ansUnsolved
	if h.pos < len(h.script) {
		a = h.script[h.pos]
	}
	h.pos++
	h.answers = append(h.answers, a)
	h.events = append(h.events, fmt.Sprintf("eval(%d,%d)", g.TrialId, g.Id))
	top := true
	for _, o := range pop.Organisms {
		if structureKey(SpecOf(o.Genotype)) != h.startK {
			top = false
		}
	}
	for i, o := range pop.Organisms {
		o.Fitness = float64(i + 1)
	}
	s := c20Seen{run: g.TrialId, gen: g.Id, pop: pop, orgs: append([]*genetics.Organism(nil), pop.Organisms...), startTop: top}
	switch a {
	case ansError:
		h.seen = append(h.seen, s)
		return errC20EvalKinds[h.errKind]
	case ansSolvedError:
		g.Solved = true
		g.Champion = pop.Organisms[0]
		s.solved = true
		h.seen = append(h.seen, s)
		return errC20EvalKinds[h.errKind]
	case ansCancelUnsolved, ansCancelSolved:
		h.cancel()
	}
	if a == ansSolved || a == ansCancelSolved {
		g.Solved = true
		g.Champion = pop.Organisms[0]
		s.solved = true
	}
	h.seen = append(h.seen, s)
	return nil
}

func (h *c20Harness) TrialRunStarted(t *experiment.Trial) {
	h.events = append(h.events, fmt.Sprintf("start(%d)", t.Id))
	h.curGens = 0
	if len(t.Generations) != 0 && h.obsMsg == "" {
		h.obsMsg = fmt.Sprintf("the trial handed to TrialRunStarted(%d) already holds %d generations", t.Id, len(t.Generations))
	}
}
func (h *c20Harness) TrialRunFinished(t *experiment.Trial) {
	h.events = append(h.events, fmt.Sprintf("finish(%d)", t.Id))
	if h.obsMsg == "" {
		if len(t.Generations) != h.curGens {
			h.obsMsg = fmt.Sprintf("the trial handed to TrialRunFinished(%d) holds %d generations, %d were evaluated in it", t.Id, len(t.Generations), h.curGens)
		} else {
			for i, g := range t.Generations {
				if g.Id != i {
					h.obsMsg = fmt.Sprintf("the trial handed to TrialRunFinished(%d) lists generation id %d at position %d", t.Id, g.Id, i)
					break
				}
			}
		}
	}
}
func (h *c20Harness) EpochEvaluated(t *experiment.Trial, g *experiment.Generation) {
	h.events = append(h.events, fmt.Sprintf("epoch(%d,%d)", t.Id, g.Id))
	h.curGens++
}

type c20Expect struct {
	events   []string // notifications and evaluator calls up to the end / the abort point
	full     []string // for an aborted run: what an undisturbed run would have produced from there
	trials   [][2][]int
	aborted  bool
	wantErr  error
	lastEval string
}

type c20Trial struct {
	id     int
	gens   []int
	solved []bool
}

// c20Reference is the protocol written from the statement.
func c20Reference(cfg c20Config, answers func(i int) int) (events []string, trials []c20Trial, aborted bool, wantErr error, calls int) {
	cancelled := cfg.PreCancel
	i := 0
	for run := 0; run < cfg.Runs; run++ {
		events = append(events, fmt.Sprintf("start(%d)", run))
		t := c20Trial{id: run}
		for g := 0; g < cfg.Gens; g++ {
			if cancelled {
				return events, trials, true, context.Canceled, i
			}
			a := answers(i)
			i++
			events = append(events, fmt.Sprintf("eval(%d,%d)", run, g))
			if a == ansError || a == ansSolvedError {
				return events, trials, true, errC20EvalKinds[cfg.ErrKind], i
			}
			if a == ansCancelUnsolved || a == ansCancelSolved {
				cancelled = true
			}
			solved := a == ansSolved || a == ansCancelSolved
			if cancelled && !solved {
				// the population cannot be turned over under a cancelled context: the run stops here
				return events, trials, true, context.Canceled, i
			}
			events = append(events, fmt.Sprintf("epoch(%d,%d)", run, g))
			t.gens = append(t.gens, g)
			t.solved = append(t.solved, solved)
			if solved {
				break
			}
		}
		events = append(events, fmt.Sprintf("finish(%d)", run))
		trials = append(trials, t)
	}
	return events, trials, false, nil, i
}

func c20Observerless(ev []string) []string {
	var out []string
	for _, e := range ev {
		if strings.HasPrefix(e, "eval(") {
			out = append(out, e)
		}
	}
	return out
}

// c20Run executes one script and returns "" or the first discrepancy, plus the answers consumed.
func c20Run(cfg c20Config, script []int) (msg string, consumed []int, events []string) {
	opts := baseOptions()
	opts.PopSize = 4
	opts.NumRuns, opts.NumGenerations = cfg.Runs, cfg.Gens
	if cfg.Parallel {
		opts.EpochExecutorType = neat.EpochExecutorTypeParallel
	}
	opts.MutateAddNodeProb, opts.MutateAddLinkProb = 0.3, 0.3
	endErr := error(context.Canceled)
	if cfg.Deadline {
		endErr = context.DeadlineExceeded
	}
	var base context.Context = opts.NeatContext()
	if cfg.Nested {
		base = nestedCtx(opts)
	}
	ectx := &endableCtx{Context: base, done: make(chan struct{}), err: endErr}
	var ctx context.Context = ectx
	ended := false
	cancel := func() {
		if !ended {
			ended = true
			close(ectx.done)
		}
	}
	if cfg.PreCancel {
		cancel()
	}
	start := xorSeed()
	h := &c20Harness{script: script, cancel: cancel, startK: structureKey(start), errKind: cfg.ErrKind}
	e := experiment.Experiment{Id: 1}
	if cfg.Prealloc > 0 {
		e.Trials = make(experiment.Trials, cfg.Runs+cfg.Prealloc)
		if cfg.Stale {
			for i := range e.Trials {
				e.Trials[i] = experiment.Trial{Id: 100 + i, Generations: experiment.Generations{{Id: 0, TrialId: 100 + i, Solved: true}, {Id: 1, TrialId: 100 + i}}}
			}
		}
	}
	staleLen := 0
	if cfg.Stale {
		staleLen = 2
	}
	var obs experiment.TrialRunObserver
	if cfg.Observer {
		obs = h
	}
	var err error
	var pan interface{}
	func() {
		defer func() {
			if r := recover(); r != nil {
				pan = r
			}
		}()
		err = e.Execute(ctx, start.Build(), h, obs)
	}()
	consumed, events = h.answers, h.events
	if pan != nil {
		return fmt.Sprintf("Execute panicked: %v", pan), consumed, events
	}
	ans := func(i int) int {
		if i < len(script) {
			return script[i]
		}
		return ansUnsolved
	}
	want, trials, aborted, wantErr, calls := c20Reference(cfg, ans)
	if aborted && wantErr == context.Canceled {
		wantErr = endErr
	}
	got := events
	if !cfg.Observer {
		want = c20Observerless(want)
	}
	if !aborted {
		if err != nil {
			return fmt.Sprintf("Execute returned error %q for a run that nothing aborted", err), consumed, events
		}
		if strings.Join(got, " ") != strings.Join(want, " ") {
			return fmt.Sprintf("calls received: %v; protocol: %v", got, want), consumed, events
		}
	} else {
		if err == nil {
			return fmt.Sprintf("an aborted run (%v) returned no error", wantErr), consumed, events
		}
		if !errors.Is(err, wantErr) {
			return fmt.Sprintf("Execute returned %q, expected %q", err, wantErr), consumed, events
		}
		// everything up to the abort point as in the protocol, and no evaluator call after it
		if len(h.answers) != calls {
			return fmt.Sprintf("the evaluator was called %d times, the run had to stop after %d calls", len(h.answers), calls), consumed, events
		}
		if len(got) < len(want) || strings.Join(got[:len(want)], " ") != strings.Join(want, " ") {
			// the library may stop slightly earlier than the reference only by omitting nothing: demand the reference prefix
			return fmt.Sprintf("calls received before the abort: %v; protocol up to the abort: %v", got, want), consumed, events
		}
		// after the abort point: no further evaluation and no notification for another generation; a
		// notification that the generation just evaluated is complete is compatible with the statement
		lastEval := ""
		for _, e := range want {
			if strings.HasPrefix(e, "eval(") {
				lastEval = "epoch(" + strings.TrimPrefix(e, "eval(")
			}
		}
		for _, extra := range got[len(want):] {
			if strings.HasPrefix(extra, "eval(") || (strings.HasPrefix(extra, "epoch(") && extra != lastEval) {
				return fmt.Sprintf("after the abort point the library still delivered %s (calls %v)", extra, got), consumed, events
			}
		}
	}
	if h.obsMsg != "" {
		return h.obsMsg, consumed, events
	}
	// recorded trials
	if len(e.Trials) < len(trials) {
		return fmt.Sprintf("%d trials recorded, %d completed", len(e.Trials), len(trials)), consumed, events
	}
	if !aborted && len(e.Trials) != cfg.Runs+cfg.Prealloc {
		return fmt.Sprintf("%d trial records, %d configured (+%d pre-allocated)", len(e.Trials), cfg.Runs, cfg.Prealloc), consumed, events
	}
	for i := len(trials); i < len(e.Trials) && !aborted; i++ {
		if len(e.Trials[i].Generations) != staleLen {
			return fmt.Sprintf("trial record #%d beyond the %d configured trials was touched (%d generations recorded, %d before the run)", i, cfg.Runs, len(e.Trials[i].Generations), staleLen), consumed, events
		}
	}
	for i, t := range trials {
		r := e.Trials[i]
		if r.Id != t.id || len(r.Generations) != len(t.gens) {
			return fmt.Sprintf("trial #%d recorded as (id %d, %d generations), the run had (id %d, %d generations)", i, r.Id, len(r.Generations), t.id, len(t.gens)), consumed, events
		}
		for gi := range t.gens {
			if r.Generations[gi].Id != t.gens[gi] || r.Generations[gi].Solved != t.solved[gi] || r.Generations[gi].TrialId != t.id {
				return fmt.Sprintf("trial %d generation #%d recorded as (id %d, solved %v, trial %d), the run had (id %d, solved %v)", t.id, gi, r.Generations[gi].Id, r.Generations[gi].Solved, r.Generations[gi].TrialId, t.gens[gi], t.solved[gi]), consumed, events
			}
		}
	}
	// populations: fresh per trial, start topology at generation 0, turnover between unsolved generations, none after solved
	popOfRun := map[int]*genetics.Population{}
	for i, s := range h.seen {
		if s.gen == 0 {
			for r, p := range popOfRun {
				if p == s.pop {
					return fmt.Sprintf("trial %d was run on the population object of trial %d", s.run, r), consumed, events
				}
			}
			popOfRun[s.run] = s.pop
			if !s.startTop {
				return fmt.Sprintf("trial %d generation 0 was evaluated on genomes that do not have the start genome's topology", s.run), consumed, events
			}
		} else if popOfRun[s.run] != s.pop {
			return fmt.Sprintf("trial %d generation %d was evaluated on another population object than generation 0", s.run, s.gen), consumed, events
		}
		if i > 0 && h.seen[i-1].run == s.run {
			prev := map[*genetics.Organism]bool{}
			for _, o := range h.seen[i-1].orgs {
				prev[o] = true
			}
			for _, o := range s.orgs {
				if prev[o] {
					return fmt.Sprintf("trial %d generation %d still contains an organism of generation %d (no turnover)", s.run, s.gen, s.gen-1), consumed, events
				}
			}
		}
		if s.solved && len(s.pop.Organisms) == len(s.orgs) {
			for k, o := range s.pop.Organisms {
				if o != s.orgs[k] {
					return fmt.Sprintf("the population of trial %d was turned over after generation %d was reported solved", s.run, s.gen), consumed, events
				}
			}
		} else if s.solved {
			return fmt.Sprintf("the population of trial %d changed size after generation %d was reported solved", s.run, s.gen), consumed, events
		}
	}
	return "", consumed, events
}

func runC20(c *Ctx) {
	maxRG := 3
	if !c.Quick() {
		maxRG = 4
	}
	var cfgs []c20Config
	for r := 0; r <= maxRG; r++ {
		for g := 0; g <= maxRG; g++ {
			for _, obs := range []bool{true, false} {
				for _, par := range []bool{false, true} {
					for _, pre := range []bool{false, true} {
						cfgs = append(cfgs, c20Config{Runs: r, Gens: g, Observer: obs, Parallel: par, PreCancel: pre})
						// the same with an expired deadline instead of a cancel, and on a re-used experiment
						cfgs = append(cfgs, c20Config{Runs: r, Gens: g, Observer: obs, Parallel: par, PreCancel: pre, Deadline: true, Prealloc: 2, Nested: true, ErrKind: 2})
						// on an experiment that still holds the results of an earlier execution
						if !pre {
							cfgs = append(cfgs, c20Config{Runs: r, Gens: g, Observer: obs, Parallel: par, Prealloc: 1, Stale: true, ErrKind: 1})
						}
					}
				}
			}
		}
	}
	c.Extra["configurations"] = len(cfgs)
	var total, evalCalls int64
	outcomes := map[string]bool{}
	parFor(len(cfgs), func(ci int) {
		cfg := cfgs[ci]
		var n, calls int64
		local := map[string]bool{}
		var rec func(prefix []int)
		rec = func(prefix []int) {
			if c.Expired() {
				c.MarkCapped("deadline reached before the answer tree was completed")
				return
			}
			msg, consumed, events := c20Run(cfg, prefix)
			n++
			calls += int64(len(consumed))
			local[strings.Join(events, " ")] = true
			if msg != "" {
				params := map[string]interface{}{}
				js, _ := jsonMarshal(cfg)
				_ = jsonUnmarshal(js, &params)
				var names []string
				for _, a := range consumed {
					names = append(names, c20AnsNames[a])
				}
				clause := "protocol"
				if strings.Contains(msg, "panicked") {
					clause = "panic"
				} else if strings.Contains(msg, "population") || strings.Contains(msg, "turnover") || strings.Contains(msg, "topology") || strings.Contains(msg, "turned over") {
					clause = "population-handling"
				} else if strings.Contains(msg, "recorded") {
					clause = "recorded-trials"
				} else if strings.Contains(msg, "error") || strings.Contains(msg, "returned") {
					clause = "error-result"
				}
				c.ViolateOrd("C20/"+clause, int64(len(consumed)*100+cfg.Runs*10+cfg.Gens), fmt.Sprintf("%s [runs=%d generations=%d observer=%v parallel=%v ended-before-start=%v deadline=%v prealloc=%d stale=%v nested-context=%v, evaluator answers %v]", msg, cfg.Runs, cfg.Gens, cfg.Observer, cfg.Parallel, cfg.PreCancel, cfg.Deadline, cfg.Prealloc, cfg.Stale, cfg.Nested, names),
					&Replay{Scenario: "experiment", Params: params, Answers: consumed, Clause: msg})
			}
			for i := len(prefix); i < len(consumed); i++ {
				for alt := 0; alt < numAnswers; alt++ {
					if alt != consumed[i] {
						rec(append(append([]int(nil), consumed[:i]...), alt))
					}
				}
			}
		}
		rec(nil)
		c.mu.Lock()
		total += n
		evalCalls += calls
		for k := range local {
			outcomes[k] = true
		}
		c.mu.Unlock()
		for k := range local {
			c.Distinct(hashString(fmt.Sprint(ci) + k))
		}
	})
	c.Evaluations = total
	c.Traces = total
	c.Transitions = evalCalls
	c.States = int64(len(c.distinct))
	c.Count("executions", total)
	c.Count("evaluator_calls", evalCalls)
	c.Count("distinct_call_sequences", int64(len(outcomes)))
	c.Sample(map[string]interface{}{"config": c20Config{Runs: 2, Gens: 2, Observer: true}, "answers": []string{"unsolved", "cancel+solved"}, "protocol": []string{"start(0)", "eval(0,0)", "epoch(0,0)", "eval(0,1)", "epoch(0,1)", "finish(0)", "start(1)", "<context.Canceled>"}})
	c.Rule = fmt.Sprintf("NumRuns x NumGenerations in {0..%d}^2 x observer {present, nil} x executor {sequential, parallel} x context {live, ended before Execute} x {ended by cancel with a nil Trials slice, ended by an expired deadline with a pre-allocated longer Trials slice (re-used experiment)}; every GenerationEvaluate call is a choice point with 5 answers (unsolved, solved, error, cancel the context then unsolved / solved); the COMPLETE tree of answer scripts is enumerated on the real Execute with a 4-organism XOR population; a reference state machine written from the statement gives the expected call sequence (exact for undisturbed runs; for aborted runs: identical up to the abort, no further evaluation, the right error), the recorded trials, and the population handling (fresh object per trial, start topology at generation 0, turnover between unsolved generations, none after a solved one). states = distinct (configuration, observed call sequence), transitions = evaluator calls", maxRG)
	c.Assume("random draws come from the real math/rand (their values do not influence the protocol); log output is discarded")
}

func replayC20(c *Ctx, rp *Replay) (bool, string) {
	var cfg c20Config
	js, _ := jsonMarshal(rp.Params)
	_ = jsonUnmarshal(js, &cfg)
	msg, _, events := c20Run(cfg, rp.Answers)
	if msg != "" {
		return true, msg
	}
	return false, fmt.Sprint(events)
}
