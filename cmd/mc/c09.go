package main

// C09 — offspring quotas follow shared fitness and total the population size.

func init() {
	register("C09", "model_checking", runC09, replayEpochs("C09", oQuota))
}

func planC09(c *Ctx) epochPlan {
	seeds := []string{"xor", "evolved", "disc", "rand"}
	modes := []string{"perspecies", "phase", "whole"}
	fits := []int{1, 2, 3, 4, 5, 6, 0}
	pl := epochPlan{prop: "C09", oracles: oQuota}
	if c.Quick() {
		pl.scenarios = buildScenarios(quickCfgRows, allPolicies, seeds, modes, fits, false)
		pl.maxDev = 1
	} else {
		pl.scenarios = buildScenarios(len(cfgRows), allPolicies, seeds, modes, fits, true)
		pl.maxDev = 1
		pl.deepScenarios = buildScenarios(quickCfgRows, []string{"A", "R1"}, seeds, modes, fits, false)
		pl.deepDev = 2
		pl.shards = 16
	}
	return pl
}

func runC09(c *Ctx) {
	runEpochPlan(c, planC09(c))
	finishEpochEvidence(c, "E1 choice-tree exploration of multi-epoch runs (see C02); after every epoch the previous generation's objects are inspected: remembered original fitness == assigned fitness; within a species adjusted/original*size is one positive factor (fitness is shared); the unmarked organisms are exactly the top floor(survival*n)+1 by fitness and (phase-wise driving) exactly they are left as parents; expected offspring == adjusted fitness / population mean; without stealing and delta coding the quotas' prefix sums in species order equal the floor of the members' expected-offspring prefix sums with at most one make-up offspring; in ALL cases (stealing, delta coding, population-died fallback) quotas total PopSize; (species-wise driving) every species yields exactly its quota and zero-quota species nothing. states = distinct end-state hashes, transitions = populations produced")
}
