package main

import (
	"encoding/json"
	"fmt"
	"math"

	"github.com/yaricom/goNEAT/v4/neat"
	"github.com/yaricom/goNEAT/v4/neat/genetics"
)

// C09 — offspring quotas follow shared fitness and total the population size.

func init() {
	register("C09", "model_checking", runC09, replayC09)
}

func planC09(c *Ctx) epochPlan {
	seeds := []string{"xor", "hb1", "evolved", "hb2", "disc", "hb3", "rand", "hb4", "hb5", "hb6"}
	modes := []string{"perspecies", "phase", "whole"}
	fits := []int{1, 2, 3, 4, 5, 6, 0}
	pl := epochPlan{prop: "C09", oracles: oQuota}
	if c.Quick() {
		pl.scenarios = buildScenarios(quickCfgRows, allPolicies, seeds, modes, fits, false)
		pl.maxDev = 1
	} else {
		pl.scenarios = buildScenarios(len(cfgRows), allPolicies, seeds, modes, fits, true)
		pl.maxDev = 1
		pl.deepScenarios = deepScenarios(seeds, modes, fits)
		pl.deepDev = 2
		pl.shards = 16
	}
	return pl
}

func runC09(c *Ctx) {
	c09Shapes(c)
	runEpochPlan(c, planC09(c))
	finishEpochEvidence(c, "E1 choice-tree exploration of multi-epoch runs (see C02); after every epoch the previous generation's objects are inspected: remembered original fitness == assigned fitness; within a species adjusted/original*size is one positive factor (fitness is shared); the unmarked organisms are exactly the top floor(survival*n)+1 by fitness and (phase-wise driving) exactly they are left as parents; expected offspring == adjusted fitness / population mean; without stealing and delta coding the quotas' prefix sums in species order equal the floor of the members' expected-offspring prefix sums with at most one make-up offspring; in ALL cases (stealing, delta coding, population-died fallback) quotas total PopSize; (species-wise driving) every species yields exactly its quota and zero-quota species nothing. states = distinct end-state hashes, transitions = populations produced")
}

// ---------------------------------------------------------------------------
// Stage 2 (E4 x complete E1): ALL population shapes below a bound, preparation
// phase only. A shape is a composition of n organisms into k <= 4 species, each
// species with an (age, generations since last improvement) pair from a menu; the
// shape is crossed with fitness landscapes, BabiesStolen, DropOffAge, survival
// threshold and the population-level stagnation counter (so that delta coding is
// reached). The real prepareForReproduction runs on each; every answer sequence
// of the draws it makes (the stolen-babies lottery) is enumerated completely.

type c09Shape struct {
	Sizes  []int `json:"sizes"`
	AgeIdx []int `json:"age_idx"`
	Fit    int   `json:"fit"`
	Stolen int   `json:"stolen"`
	Drop   int   `json:"drop"`
	Surv   int   `json:"surv"`
	Stag   int   `json:"stagnant"` // 1: population-level stagnation counter at DropOffAge+4
	AgeSig int   `json:"agesig"`
}

var c09AgeMenu = [][2]int{{1, 0}, {7, 0}, {7, 6}, {12, 11}} // (age, lag)
var c09Surv = []float64{0.2, 0.5, 1.0}

func compositions(n, k int) [][]int {
	if k == 1 {
		return [][]int{{n}}
	}
	var out [][]int
	for first := 1; first <= n-(k-1); first++ {
		for _, rest := range compositions(n-first, k-1) {
			out = append(out, append([]int{first}, rest...))
		}
	}
	return out
}

func c09BuildShape(sh c09Shape) (*genetics.Population, *neat.Options) {
	opts := baseOptions()
	opts.BabiesStolen = sh.Stolen
	opts.DropOffAge = sh.Drop
	opts.SurvivalThresh = c09Surv[sh.Surv]
	opts.AgeSignificance = []float64{1, 1.5, 0}[sh.AgeSig%3]
	sp := hbSpec{Sizes: sh.Sizes}
	for _, a := range sh.AgeIdx {
		sp.Ages = append(sp.Ages, c09AgeMenu[a][0])
		sp.Lags = append(sp.Lags, c09AgeMenu[a][1])
	}
	pop := buildHandBuilt(sp, opts)
	if sh.Stag == 1 {
		pop.EpochsHighestLastChanged = sh.Drop + 4
		pop.HighestFitness = 1e12
	}
	n := len(pop.Organisms)
	for i, o := range pop.Organisms {
		o.Fitness = fitnessOf(sh.Fit, 1, i, n, o)
	}
	return pop, opts
}

func c09RunShape(c *Ctx, sh c09Shape, prefix []int, cnt map[string]int64) (x *Exec, r *popRun) {
	ex := &Explorer{Policy: Policy{Name: "Z"}, Horizon: 1000}
	ex.Body = func(x *Exec) {
		pop, opts := c09BuildShape(sh)
		r = &popRun{c: c, sc: EpochScenario{Seed: "shape", Mode: "prepare"}, opts: opts, oracles: oQuota, x: x, cnt: cnt}
		pre := capturePre(pop, false)
		exe := &genetics.SequentialPopulationEpochExecutor{}
		err := exe.VPrepare(opts.NeatContext(), 1, pop)
		if err != nil {
			r.violateShape(sh, "prepare-error", "prepareForReproduction failed: "+err.Error())
			return
		}
		r.shape = &sh
		r.checkQuotas(pre, pop, 1)
		for _, s := range pop.Species {
			left := 0
			for _, o := range pre.members[s] {
				if !o.VToEliminate() {
					left++
				}
			}
			if left != len(s.Organisms) {
				r.violateShape(sh, "parents-missing", fmt.Sprintf("species %d has %d organisms available as parents, %d were not marked for elimination", s.Id, len(s.Organisms), left))
			}
		}
		if sh.Stag != 1 {
			// species with a zero quota do not reproduce: a species whose members' expected offspring
			// (floor with carried fractions in species order) give it no offspring has left the
			// population before babies are handed out - whatever the stolen pool does afterwards
			totalExp := 0.0
			for _, o := range pre.orgs {
				totalExp += o.ExpectedOffspring
			}
			if totalExp > 0.5 {
				still := map[*genetics.Species]bool{}
				for _, s := range pop.Species {
					still[s] = true
				}
				cum, prevLo, prevHi := 0.0, 0, 0
				for _, s := range pre.species {
					for _, o := range pre.members[s] {
						cum += o.ExpectedOffspring
					}
					lo, hi := int(math.Floor(cum-1e-7)), int(math.Floor(cum+1e-7))
					if lo == hi && prevLo == prevHi && lo-prevLo == 0 && still[s] {
						r.violateShape(sh, "zero-quota-species-kept", fmt.Sprintf("species %d: its members' expected offspring give it no offspring (cumulative %.9g after %.9g before), yet it is still in the population when reproduction starts (quota now %d)", s.Id, cum, float64(prevLo), s.ExpectedOffspring))
						break
					}
					prevLo, prevHi = lo, hi
				}
			}
		}
		if sh.Stag == 1 && pop.EpochsHighestLastChanged == 0 {
			r.count("shapes_with_delta_coding")
		}
		h := newFnv()
		for _, s := range pre.species {
			h.i(s.ExpectedOffspring)
		}
		x.EndHash = uint64(h)
	}
	ex.OnPanic = func(x *Exec, p interface{}, stack string) {
		rr := &popRun{c: c, x: x, cnt: cnt}
		rr.violateShape(sh, "panic", fmt.Sprintf("panic in prepareForReproduction: %v", p))
	}
	x = ex.RunOne(prefix)
	return x, r
}

func (r *popRun) violateShape(sh c09Shape, clause, msg string) {
	js, _ := json.Marshal(sh)
	params := map[string]interface{}{}
	_ = json.Unmarshal(js, &params)
	rp := &Replay{Scenario: "shape", Params: params, Answers: r.x.Answers(), Clause: msg, Trace: string(js)}
	ord := int64(0)
	for _, s := range sh.Sizes {
		ord = ord*16 + int64(s)
	}
	r.c.ViolateOrd("C09/"+clause, ord*1000+int64(sh.Fit*10+sh.Stolen), fmt.Sprintf("[shape %s] %s", string(js), msg), rp)
}

func c09Shapes(c *Ctx) {
	ns := []int{5, 8} // an odd and an even population size (delta coding halves the population)
	stolen := []int{0, 2, 3, 5, 10}
	if !c.Quick() {
		ns = []int{5, 8, 12}
		stolen = []int{0, 1, 2, 3, 5, 10, 12}
	}
	type comp struct {
		sizes []int
	}
	var comps [][]int
	for _, n := range ns {
		for k := 1; k <= 4 && k <= n; k++ {
			comps = append(comps, compositions(n, k)...)
		}
	}
	if c.Quick() {
		// plus the populations of 12 in four species of at least two members, with ten babies to steal:
		// the only shapes in which the stolen pool outlasts the three best species
		for _, cp := range compositions(12, 4) {
			ok := true
			for _, v := range cp {
				ok = ok && v >= 2
			}
			if ok {
				comps = append(comps, cp)
			}
		}
	}
	c.Extra["shape_compositions"] = len(comps)
	var shapes, execs, dist int64
	c.Sharded(len(comps), func(ci int) {
		if c.Expired() {
			c.MarkCapped("internal deadline reached before every shape was enumerated")
			return
		}
		sizes := comps[ci]
		k := len(sizes)
		cnt := map[string]int64{}
		ageIdx := make([]int, k)
		total := 1
		for i := 0; i < k; i++ {
			total *= len(c09AgeMenu)
		}
		for code := 0; code < total; code++ {
			v := code
			for i := 0; i < k; i++ {
				ageIdx[i] = v % len(c09AgeMenu)
				v /= len(c09AgeMenu)
			}
			for _, fit := range []int{0, 1, 2, 3, 4, 5, 6, 7, 8, 9, 11, 12} { // incl. an all-negative, a mixed-sign and a tiny-scale landscape
				stolenHere := stolen
				if c.Quick() && k == 4 && sizes[0]+sizes[1]+sizes[2]+sizes[3] == 12 {
					stolenHere = []int{10}
				}
				for _, st := range stolenHere {
					for _, drop := range []int{1, 15} {
						for surv := range c09Surv {
							for stag := 0; stag < 2; stag++ {
								sh := c09Shape{Sizes: sizes, AgeIdx: append([]int(nil), ageIdx...), Fit: fit, Stolen: st, Drop: drop, Surv: surv, Stag: stag, AgeSig: (code + fit + st) % 3}
								shapes++
								// complete tree of the draws made during preparation
								var rec func(prefix []int)
								rec = func(prefix []int) {
									x, _ := c09RunShape(c, sh, prefix, cnt)
									execs++
									c.Distinct(x.EndHash ^ uint64(ci)<<48 ^ uint64(code)<<32)
									for i := len(prefix); i < len(x.Points); i++ {
										for alt := 0; alt < x.Points[i].M; alt++ {
											if alt != x.Points[i].Ans {
												np := append(append([]int(nil), x.Answers()[:i]...), alt)
												rec(np)
											}
										}
									}
								}
								rec(nil)
							}
						}
					}
				}
			}
		}
		if ci == len(comps)-1 || ci == 0 {
			c.Sample(map[string]interface{}{"shape_sizes": sizes, "age_menu": c09AgeMenu, "note": "crossed with every age assignment, landscape, BabiesStolen, DropOffAge, survival threshold and stagnation flag"})
		}
		c.mu.Lock()
		c.Evaluations += execs
		c.Traces += execs
		c.Transitions += execs
		execs = 0
		c.mu.Unlock()
		c.Count("shapes_prepared", shapes)
		shapes = 0
		for k, v := range cnt {
			c.Count(k, v)
		}
	})
	_ = dist
}

func replayC09(c *Ctx, rp *Replay) (bool, string) {
	if rp.Scenario != "shape" {
		return replayEpochs("C09", oQuota)(c, rp)
	}
	js, _ := json.Marshal(rp.Params)
	var sh c09Shape
	_ = json.Unmarshal(js, &sh)
	cnt := map[string]int64{}
	c09RunShape(c, sh, rp.Answers, cnt)
	if c.ViolationCount() > 0 {
		return true, c.violations[0].Msg
	}
	return false, "shape " + string(js)
}
