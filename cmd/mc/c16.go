package main

import (
	"bytes"
	"fmt"
	"os"
	"os/exec"
	"path/filepath"
	"strings"
	"time"

	"github.com/yaricom/goNEAT/v4/neat"
	"github.com/yaricom/goNEAT/v4/neat/genetics"
	"github.com/yaricom/goNEAT/v4/neat/vrand"
	"github.com/yaricom/goNEAT/v4/neat/vsched"
)

// C16 — the parallel epoch executor is race-free and preserves all population guarantees.
//
// E3: the real ParallelPopulationEpochExecutor.NextEpoch runs under the controlled
// scheduler (every goroutine a cooperative thread; scheduling points at spawn,
// mutex, wait group, atomic, channel operations and Population method entries);
// ALL interleavings within the preemption bound are enumerated for scenarios in
// which several species innovate on shared structure in the same epoch. A
// vector-clock monitor follows the accesses to the anchored shared fields. The
// random draws of a thread are a function of (thread, per-thread index), so the
// data a thread computes does not depend on the interleaving. A separate
// free-running pass of the same bodies runs under Go's race detector.

func init() {
	register("C16", "model_checking", runC16, replayC16)
	register("C16RACEPASS", "other", runC16RacePass, nil)
}

type c16Scenario struct {
	Name    string `json:"name"`
	HB      hbSpec `json:"population"`
	Profile string `json:"profile"` // addnode | addlink | mixed
	Policy  string `json:"policy"`
	Fit     int    `json:"fit"`
	Warm    int    `json:"warm_epochs"` // epochs under the default schedule before the explored one
	Stolen  int    `json:"stolen"`
}

func c16Options(sc c16Scenario, pop int) *neat.Options {
	o := baseOptions()
	o.PopSize = pop
	o.EpochExecutorType = neat.EpochExecutorTypeParallel
	o.CompatThreshold = 1.5
	o.MutdiffCoeff = 0.1
	o.SurvivalThresh = 1.0 // every member stays a parent: with one parent per species nothing would mate
	o.BabiesStolen = sc.Stolen
	switch sc.Profile {
	case "addnode":
		o.MutateOnlyProb, o.MutateAddNodeProb = 1, 1
	case "addlink":
		o.MutateOnlyProb, o.MutateAddNodeProb, o.MutateAddLinkProb, o.NewLinkTries = 1, 0, 1, 4
		o.RecurOnlyProb = 0.5
	case "connect":
		// every baby is a copy whose disconnected sensor gets connected to every non-sensor node
		o.MutateOnlyProb, o.MutateAddNodeProb, o.MutateAddLinkProb, o.MutateConnectSensors = 1, 0, 0, 1
	case "addlink0":
		// the optional NewLinkTries left at its zero value (a configuration that never adds a link)
		o.MutateOnlyProb, o.MutateAddNodeProb, o.MutateAddLinkProb, o.NewLinkTries = 1, 0, 1, 0
		o.RecurOnlyProb = 0.5
	case "traits":
		// half of the babies are mutated copies of a parent whose traits get mutated, the other half are
		// children of a mating whose second parent comes from ANOTHER species (whose goroutine may be
		// mutating a copy of that very parent at the same time): parents are shared, read-only data
		o.MutateOnlyProb, o.MateOnlyProb = 0.5, 1
		o.MutateAddNodeProb, o.MutateAddLinkProb, o.MutateConnectSensors = 0, 0, 0
		o.MutateRandomTraitProb, o.MutateLinkTraitProb, o.MutateNodeTraitProb, o.MutateLinkWeightsProb = 1, 0, 0, 0
		o.InterspeciesMateRate = 1
		o.MateMultipointProb, o.MateMultipointAvgProb, o.MateSinglepointProb = 0.5, 0.5, 0
	case "mateonly":
		o.MutateOnlyProb = 0
		o.InterspeciesMateRate = 0.5
		o.MateMultipointProb, o.MateMultipointAvgProb, o.MateSinglepointProb = 0, 0.5, 0.5
		o.MateOnlyProb = 1
	case "mixed":
		o.MutateOnlyProb = 0.5
		o.MutateAddNodeProb, o.MutateAddLinkProb, o.MutateConnectSensors = 0.5, 0.5, 0.5
		o.InterspeciesMateRate = 0.5
		o.MateMultipointProb, o.MateMultipointAvgProb, o.MateSinglepointProb = 0.4, 0.3, 0.3
		o.MateOnlyProb = 0.5
		o.NewLinkTries = 4
	}
	return o
}

func c16Scenarios(quick bool) []c16Scenario {
	two := hbSpec{Sizes: []int{2, 2}, Ages: []int{1, 1}, Lags: []int{0, 0}}
	three := hbSpec{Sizes: []int{2, 2, 2}, Ages: []int{1, 1, 1}, Lags: []int{0, 0, 0}}
	three1 := hbSpec{Sizes: []int{1, 1, 1}, Ages: []int{1, 1, 1}, Lags: []int{0, 0, 0}}
	scs := []c16Scenario{
		{Name: "3 species x 1 offspring, all add-node", HB: three1, Profile: "addnode", Policy: "M", Fit: 1},
		{Name: "3 species x 2 offspring, all add-node", HB: three, Profile: "addnode", Policy: "A", Fit: 1},
		{Name: "2 species x 2 offspring, all add-link", HB: two, Profile: "addlink", Policy: "M", Fit: 1},
		{Name: "3 species x 2 offspring, mixed with mating and interspecies dad", HB: three, Profile: "mixed", Policy: "A", Fit: 2},
		{Name: "2 species x 2 offspring, mating only (multipoint-avg / single-point)", HB: two, Profile: "mateonly", Policy: "M", Fit: 1},
		{Name: "2 species x 2 offspring, trait mutation beside interspecies mating", HB: two, Profile: "traits", Policy: "A", Fit: 1},
		{Name: "2 species x 1 offspring, all add-link with NewLinkTries left unset", HB: hbSpec{Sizes: []int{1, 1}, Ages: []int{1, 1}, Lags: []int{0, 0}}, Profile: "addlink0", Policy: "M", Fit: 1},
	}
	scs = append(scs, c16Scenario{Name: "2 species x 1 offspring, all connect-sensors (one disconnected sensor, two and three targets)",
		HB: hbSpec{Sizes: []int{1, 1}, Ages: []int{1, 1}, Lags: []int{0, 0}, DiscSensor: true, MinHidden: 1}, Profile: "connect", Policy: "M", Fit: 1})
	if !quick {
		scs = append(scs,
			c16Scenario{Name: "3 species x 2 offspring, all add-link", HB: three, Profile: "addlink", Policy: "H", Fit: 1},
			c16Scenario{Name: "3 species x 2 offspring, mixed, after one warm-up epoch", HB: three, Profile: "mixed", Policy: "R3", Fit: 6, Warm: 1},
			c16Scenario{Name: "2 species x 2 offspring, all add-node, after one warm-up epoch", HB: two, Profile: "addnode", Policy: "H", Fit: 1, Warm: 1},
			c16Scenario{Name: "3 old species (3,2,2), stolen babies and super-champion offspring, mixed", HB: hbSpec{Sizes: []int{3, 2, 2}, Ages: []int{7, 8, 9}, Lags: []int{0, 1, 2}}, Profile: "mixed", Policy: "R1", Fit: 2, Stolen: 3},
			c16Scenario{Name: "stagnating population (3,2,2): delta coding, super-champion add-link", HB: hbSpec{Sizes: []int{3, 2, 2}, Ages: []int{3, 3, 3}, Lags: []int{0, 0, 0}, Stagnant: true}, Profile: "mixed", Policy: "R2", Fit: 2},
		)
	}
	return scs
}

type c16Outcome struct {
	res     vsched.Result
	err     error
	hash    uint64
	viol    string // property clause violated in the resulting population
	violMsg string
	threads int
	draws   int
}

// c16Execute runs one schedule of one scenario.
func c16Execute(sc c16Scenario, schedule []int, trace bool) *c16Outcome {
	total := 0
	for _, n := range sc.HB.Sizes {
		total += n
	}
	opts := c16Options(sc, total)
	pop := buildHandBuilt(sc.HB, opts)
	ctx := opts.NeatContext()
	x := &Exec{policy: parsePolicy(sc.Policy), horizon: 100000, perThread: true}
	vrand.SetHook(x)
	defer vrand.SetHook(nil)
	out := &c16Outcome{}
	ledger := newLedger()
	ledger.seedWith(genomesOf(pop))
	defaultChoose := func(n int, cur bool) int { return 0 }
	epoch := 1
	for w := 0; w < sc.Warm; w++ {
		for i, o := range pop.Organisms {
			o.Fitness = fitnessOf(sc.Fit, epoch, i, len(pop.Organisms), o)
		}
		var err error
		ex := &genetics.ParallelPopulationEpochExecutor{}
		r := vsched.Run(vsched.Config{MaxSteps: 200000, Choose: defaultChoose}, func() { err = ex.NextEpoch(ctx, epoch, pop) })
		if r.Panic != nil || err != nil || r.Deadlock {
			out.res, out.err = r, err
			out.viol, out.violMsg = "warm-up-failed", fmt.Sprintf("warm-up epoch failed: panic=%v err=%v deadlock=%v", r.Panic, err, r.Deadlock)
			return out
		}
		ledger.epoch(genomesOf(pop), false)
		epoch++
	}
	for i, o := range pop.Organisms {
		o.Fitness = fitnessOf(sc.Fit, epoch, i, len(pop.Organisms), o)
	}
	pre := capturePre(pop, false)
	di := 0
	choose := func(n int, cur bool) int {
		c := 0
		if di < len(schedule) {
			c = schedule[di]
			if c >= n {
				panic(fmt.Sprintf("schedule replay: decision %d has %d enabled threads, recorded choice %d (nondeterminism not owned)", di, n, c))
			}
		}
		di++
		return c
	}
	var err error
	ex := &genetics.ParallelPopulationEpochExecutor{}
	out.res = vsched.Run(vsched.Config{MaxSteps: 200000, Choose: choose, Trace: trace}, func() { err = ex.NextEpoch(ctx, epoch, pop) })
	out.err = err
	out.threads = out.res.Threads
	out.draws = len(x.Points)
	if out.res.Panic != nil || out.res.Deadlock || out.res.Budget {
		return out
	}
	if err != nil {
		out.viol, out.violMsg = "epoch-error", "NextEpoch returned an error: "+err.Error()
		return out
	}
	// population guarantees
	r := &popRun{opts: opts, cnt: map[string]int64{}}
	if msg := r.partition(pop, pre); msg != "" {
		out.viol, out.violMsg = "partition", msg
		return out
	}
	for _, o := range pop.Organisms {
		if msg := wellFormed(o.Genotype); msg != "" {
			out.viol, out.violMsg = "ill-formed-genome", fmt.Sprintf("organism %d: %s; genome %s", o.Genotype.Id, msg, SpecOf(o.Genotype).Short())
			return out
		}
	}
	if clause, msg, _, _ := ledger.epoch(genomesOf(pop), false); clause != "" {
		out.viol, out.violMsg = clause, msg
		return out
	}
	out.hash = popHash(pop)
	return out
}

type c16Stats struct {
	schedules, decisions, maxDecisions int64
	races, deadlocks                   int64
	outcomes                           map[uint64]bool
	threads                            int
	capped                             bool
}

func c16Violate(c *Ctx, sc c16Scenario, schedule []int, clause, msg string, o *c16Outcome) {
	params := map[string]interface{}{}
	js, _ := jsonMarshal(sc)
	_ = jsonUnmarshal(js, &params)
	tr := ""
	if o != nil {
		// re-run with the operation trace for the artefact
		t := c16Execute(sc, schedule, true)
		ops := t.res.Ops
		if len(ops) > 400 {
			ops = ops[len(ops)-400:]
		}
		tr = strings.Join(ops, " ")
	}
	c.ViolateOrd("C16/"+clause, int64(len(schedule)), fmt.Sprintf("[%s, policy %s] %s", sc.Name, sc.Policy, msg), &Replay{Scenario: "schedule", Params: params, Schedule: schedule, Clause: msg, Trace: tr})
}

// c16Explore enumerates all schedules of the scenario within the preemption bound.
func c16Explore(c *Ctx, sc c16Scenario, bound int, shardK, shardN int) *c16Stats {
	st := &c16Stats{outcomes: map[uint64]bool{}}
	var rec func(prefix []int, used int)
	rec = func(prefix []int, used int) {
		if c.Expired() {
			st.capped = true
			return
		}
		o := c16Execute(sc, prefix, false)
		st.schedules++
		nd := int64(len(o.res.Decisions))
		st.decisions += nd
		if nd > st.maxDecisions {
			st.maxDecisions = nd
		}
		if o.threads > st.threads {
			st.threads = o.threads
		}
		switch {
		case o.res.Panic != nil:
			if s, ok := o.res.Panic.(string); ok && strings.Contains(s, "nondeterminism not owned") {
				panic(s)
			}
			if _, hz := o.res.Panic.(horizonAbort); hz {
				// the draw horizon of the harness was crossed (a rejection loop the answer policy cannot leave):
				// a limit of the exploration, not a behaviour of the library
				c.MarkCapped("a schedule of scenario '" + sc.Name + "' crossed the draw horizon of the harness and was abandoned")
				break
			}
			st := o.res.Stack
			if i := strings.Index(st, "goNEAT"); i > 0 && len(st) > i+700 {
				st = st[i : i+700]
			}
			c16Violate(c, sc, prefix, "panic", fmt.Sprintf("a reproduction thread panicked: %v; %s", o.res.Panic, st), o)
		case o.res.Deadlock:
			st.deadlocks++
			c16Violate(c, sc, prefix, "deadlock", "no thread is enabled although some have not finished", o)
		case o.res.Budget:
			c16Violate(c, sc, prefix, "livelock", "the step budget was exhausted", o)
		case o.viol != "":
			c16Violate(c, sc, prefix, o.viol, o.violMsg, o)
		}
		if len(o.res.Races) > 0 {
			st.races++
			r := o.res.Races[0]
			c16Violate(c, sc, prefix, "race-on-"+r.Field, "happens-before race on "+r.Field+": "+r.String(), o)
		}
		if o.hash != 0 {
			st.outcomes[o.hash] = true
			c.Distinct(o.hash)
		}
		ds := o.res.Decisions
		for i := len(prefix); i < len(ds); i++ {
			if used == 0 && len(prefix) == 0 && shardN > 1 && i%shardN != shardK {
				continue
			}
			cost := used
			if ds[i].CurrentEnabled {
				cost++
			}
			if cost > bound {
				continue
			}
			for alt := 1; alt < ds[i].N; alt++ {
				np := make([]int, i+1)
				for k := 0; k < i; k++ {
					np[k] = ds[k].Chosen
				}
				np[i] = alt
				rec(np, cost)
				if st.capped {
					return
				}
			}
		}
	}
	rec(nil, 0)
	return st
}

func runC16(c *Ctx) {
	bound := 2
	if !c.Quick() {
		bound = 3
	}
	scs := c16Scenarios(c.Quick())
	// determinism gate: the same schedule twice gives the same decisions and the same outcome
	for _, sc := range scs {
		a, b := c16Execute(sc, nil, false), c16Execute(sc, nil, false)
		if len(a.res.Decisions) != len(b.res.Decisions) || a.hash != b.hash || a.draws != b.draws {
			panic(fmt.Sprintf("C16 %s: nondeterminism not owned: two runs of the default schedule differ (%d/%d decisions, %x/%x)", sc.Name, len(a.res.Decisions), len(b.res.Decisions), a.hash, b.hash))
		}
	}
	shards := 8
	type unit struct{ si, k int }
	var units []unit
	for si := range scs {
		for k := 0; k < shards; k++ {
			units = append(units, unit{si, k})
		}
	}
	c.Extra["preemption_bound"] = bound
	c.Dynamic = true
	c.Sharded(len(units), func(ui int) {
		u := units[ui]
		sc := scs[u.si]
		st := c16Explore(c, sc, bound, u.k, shards)
		c.mu.Lock()
		c.Evaluations += st.schedules
		c.Traces += st.schedules
		c.Transitions += st.decisions
		c.mu.Unlock()
		c.Count(fmt.Sprintf("scenario_%d_schedules", u.si), st.schedules)
		c.Count("deadlocks", st.deadlocks)
		c.Count("schedules_with_a_monitor_race", st.races)
		if st.capped {
			c.MarkCapped(fmt.Sprintf("deadline reached inside scenario %q; its schedules within the preemption bound were not completed", sc.Name))
		}
	})
	if !c.isWorker {
		// vacuity guard
		for si, sc := range scs {
			o := c16Execute(sc, nil, false)
			if o.threads < 3 {
				c.MarkCapped(fmt.Sprintf("scenario %q runs fewer than 2 reproduction threads and does not exercise the property", sc.Name))
			}
			c.Sample(map[string]interface{}{"scenario": sc.Name, "policy": sc.Policy, "threads": o.threads, "decision_points_default_schedule": len(o.res.Decisions), "draws": o.draws})
			_ = si
		}
		c16RunRacePass(c)
	}
	c.States = int64(len(c.distinct))
	c.Rule = fmt.Sprintf("scenarios: hand-built populations of 2-3 species whose members share genes, profiles all-add-node / all-add-link / mixed with mating and interspecies dad, 1-2 offspring per species, optionally after a warm-up epoch; the real ParallelPopulationEpochExecutor.NextEpoch under the controlled scheduler: ALL interleavings of the scheduling points (spawn, mutex lock/unlock, wait-group add/done/wait, atomic operations, channel send/recv/close, Population method entries) with at most %d preemptions; on every schedule: no deadlock, no panic, no happens-before race on Population.innovations / nextInnovNum / nextNodeId nor on any package-level variable of the instrumented packages (vector-clock monitor), no epoch error, exact size and species partition, well-formed genomes, innovation ledger (a number denotes one connection, a node id one role, new numbers above all held). Thread-local draws from policies M/H/A/R. Plus a free-running pass of the same bodies under Go's race detector (race_pass_runs; not schedule-exhaustive). states = distinct resulting populations, transitions = scheduling decisions", bound)
	c.Assume("race-freedom outside the anchored fields rests on the free-running race-detector pass (happens-before based, not schedule-exhaustive)")
	c.Assume("memory-model effects weaker than sequential consistency are not modelled by the cooperative scheduler")
}

func replayC16(c *Ctx, rp *Replay) (bool, string) {
	var sc c16Scenario
	js, _ := jsonMarshal(rp.Params)
	_ = jsonUnmarshal(js, &sc)
	o := c16Execute(sc, rp.Schedule, true)
	switch {
	case o.res.Panic != nil:
		return true, fmt.Sprintf("panic: %T %v %s", o.res.Panic, o.res.Panic, o.res.Stack)
	case o.res.Deadlock:
		return true, "deadlock"
	case len(o.res.Races) > 0:
		return true, o.res.Races[0].String()
	case o.viol != "":
		return true, o.violMsg
	}
	return false, fmt.Sprintf("%s: %d decisions", sc.Name, len(o.res.Decisions))
}

// ---------------------------------------------------------------------------
// free-running race pass

// runC16RacePass is executed by the -race build (build/mc-race C16RACEPASS): pass-through shims, real goroutines.
func runC16RacePass(c *Ctx) {
	seed := c.Seed
	for _, sc := range c16Scenarios(false) {
		total := 0
		for _, n := range sc.HB.Sizes {
			total += n
		}
		for rep := 0; rep < 3; rep++ {
			vrand.Seed(seed*1000 + int64(rep))
			opts := c16Options(sc, total)
			pop := buildHandBuilt(sc.HB, opts)
			ctx := opts.NeatContext()
			for epoch := 1; epoch <= 3; epoch++ {
				for i, o := range pop.Organisms {
					o.Fitness = fitnessOf(sc.Fit, epoch, i, len(pop.Organisms), o)
				}
				ex := &genetics.ParallelPopulationEpochExecutor{}
				if err := ex.NextEpoch(ctx, epoch, pop); err != nil {
					fmt.Println("RACEPASS-EPOCH-ERROR", sc.Name, err)
					break
				}
			}
		}
	}
	// twenty species (more reproduction goroutines than processors, than any fixed pool size), the guarantees checked
	{
		hb := hbSpecs["hbm"]
		opts := CfgRow{40, 1, 0.5, 3, 0, 1, 1, false}.Options()
		opts.EpochExecutorType = neat.EpochExecutorTypeParallel
		vrand.Seed(seed + 7)
		pop := buildHandBuilt(hb, opts)
		ctx := opts.NeatContext()
		for epoch := 1; epoch <= 3; epoch++ {
			for i, o := range pop.Organisms {
				o.Fitness = fitnessOf(5, epoch, i, len(pop.Organisms), o)
			}
			ex := &genetics.ParallelPopulationEpochExecutor{}
			if err := ex.NextEpoch(ctx, epoch, pop); err != nil {
				fmt.Println("RACEPASS-EPOCH-ERROR twenty species", err)
				break
			}
			if msg := c16FreePredicate(pop, opts.PopSize); msg != "" {
				fmt.Println("RACEPASS-EPOCH-ERROR twenty species, epoch", epoch, ":", msg)
				break
			}
		}
	}
	// a longer free run with mating and stealing from a spawned population
	row := CfgRow{12, 1, 0.5, 3, 5, 1.5, 1, true}
	opts := row.Options()
	opts.InterspeciesMateRate = 0.3
	vrand.Seed(seed)
	pop, err := genetics.NewPopulation(xorSeed().Build(), opts)
	if err == nil {
		ctx := opts.NeatContext()
		for epoch := 1; epoch <= 40; epoch++ {
			for i, o := range pop.Organisms {
				o.Fitness = fitnessOf(5, epoch, i, len(pop.Organisms), o)
			}
			ex := &genetics.ParallelPopulationEpochExecutor{}
			if err := ex.NextEpoch(ctx, epoch, pop); err != nil {
				fmt.Println("RACEPASS-EPOCH-ERROR free run", err)
				break
			}
			if msg := c16FreePredicate(pop, opts.PopSize); msg != "" {
				fmt.Println("RACEPASS-EPOCH-ERROR free run, epoch", epoch, ":", msg)
				break
			}
		}
	}
	c.Evaluations = 1
	c.Extra["explanation"] = "internal: free-running bodies for the race detector"
	fmt.Println("RACEPASS-DONE")
}

// c16FreePredicate: the population guarantees after a free-running parallel epoch (size, partition, well-formed genomes,
// unique genome ids).
func c16FreePredicate(pop *genetics.Population, size int) string {
	if len(pop.Organisms) != size {
		return fmt.Sprintf("%d organisms, population size is %d", len(pop.Organisms), size)
	}
	listed := map[*genetics.Organism]int{}
	for _, s := range pop.Species {
		if len(s.Organisms) == 0 {
			return fmt.Sprintf("species %d is empty", s.Id)
		}
		for _, o := range s.Organisms {
			listed[o]++
			if o.Species != s {
				return fmt.Sprintf("an organism listed by species %d points to another species", s.Id)
			}
		}
	}
	ids := map[int]bool{}
	for _, o := range pop.Organisms {
		if listed[o] != 1 {
			return fmt.Sprintf("an organism is listed by %d species", listed[o])
		}
		if ids[o.Genotype.Id] {
			return fmt.Sprintf("genome id %d occurs twice", o.Genotype.Id)
		}
		ids[o.Genotype.Id] = true
		if msg := wellFormed(o.Genotype); msg != "" {
			return "ill-formed genome: " + msg
		}
	}
	return ""
}

// c16RunRacePass runs build/mc-race several times and turns a detector report into a violation.
func c16RunRacePass(c *Ctx) {
	bin := filepath.Join(verifRoot, "build", "mc-race")
	if b := os.Getenv("VERIF_MC_RACE"); b != "" {
		bin = b
	}
	if _, err := os.Stat(bin); err != nil {
		panic("build/mc-race is missing (./check C16 builds it): " + err.Error())
	}
	runs := 6
	if !c.Quick() {
		runs = 60
	}
	done := 0
	start := time.Now()
	for i := 0; i < runs; i++ {
		// the pass has its own budget (a third of the tier's) and always performs at least two runs
		if i >= 2 && (time.Since(start) > time.Until(c.deadline)/3+time.Minute || time.Since(start) > 8*time.Minute) {
			c.MarkCapped(fmt.Sprintf("race pass stopped after %d of %d runs (time)", i, runs))
			break
		}
		cmd := exec.Command(bin, "C16RACEPASS", "--tier", "quick")
		procs := "16"
		if i%2 == 1 {
			procs = "2"
		}
		cmd.Env = append(os.Environ(), "GORACE=halt_on_error=1 exitcode=66", "GOMAXPROCS="+procs, fmt.Sprintf("VERIF_SEED=%d", c.Seed*100+int64(i)), "VERIF_NO_EVIDENCE=1")
		var buf bytes.Buffer
		cmd.Stdout, cmd.Stderr = &buf, &buf
		t0 := time.Now()
		err := cmd.Run()
		out := buf.String()
		if strings.Contains(out, "DATA RACE") {
			rep := out[strings.Index(out, "WARNING: DATA RACE"):]
			if len(rep) > 2500 {
				rep = rep[:2500]
			}
			where := "unknown location"
			for _, line := range strings.Split(rep, "\n") {
				if strings.Contains(line, "goNEAT") && strings.Contains(line, "()") {
					where = strings.TrimSpace(line)
					break
				}
			}
			c.ViolateOrd("C16/race-detector", 0, "Go's race detector reports a data race during a parallel epoch (free-running pass), first frame: "+where,
				&Replay{Scenario: "racepass", Params: map[string]interface{}{"seed": c.Seed*100 + int64(i), "gomaxprocs": procs}, Clause: "DATA RACE", Trace: rep})
			done++
			break
		}
		if err != nil && (strings.Contains(out, "panic:") || strings.Contains(out, "fatal error:")) && c16LibraryFrame(out) {
			// the library itself crashed during a free-running parallel epoch: a verdict, not a tooling error
			c.ViolateOrd("C16/racepass-panic", 2, "a free-running parallel epoch crashed inside the library: "+c16PanicLine(out), &Replay{Scenario: "racepass", Params: map[string]interface{}{"seed": c.Seed*100 + int64(i), "gomaxprocs": procs}, Clause: "panic", Trace: tailStr(out, 3000)})
			done++
			break
		}
		if err != nil || !strings.Contains(out, "RACEPASS-DONE") {
			panic(fmt.Sprintf("race pass run failed without a race report (%v, %s): %s", err, time.Since(t0), tailStr(out, 600)))
		}
		if strings.Contains(out, "RACEPASS-EPOCH-ERROR") {
			c.ViolateOrd("C16/racepass-epoch-error", 1, "a free-running parallel epoch returned an error: "+tailStr(out, 300), &Replay{Scenario: "racepass", Params: map[string]interface{}{"seed": c.Seed*100 + int64(i)}})
		}
		done++
	}
	c.Extra["race_pass_runs"] = done
}

// c16LibraryFrame: the crash trace's first frames below the panic lie in the library (not in the harness or a shim)
func c16LibraryFrame(out string) bool {
	i := strings.Index(out, "panic:")
	if j := strings.Index(out, "fatal error:"); j >= 0 && (i < 0 || j < i) {
		i = j
	}
	if i < 0 {
		return false
	}
	for _, line := range strings.Split(out[i:], "\n") {
		if strings.HasPrefix(line, "main.") || strings.Contains(line, "verif/cmd/mc") {
			return false // the harness frame comes first: not the library's crash
		}
		if strings.Contains(line, "goNEAT/v4/neat/genetics.") || strings.Contains(line, "goNEAT/v4/neat/network.") || strings.Contains(line, "goNEAT/v4/neat.") || strings.Contains(line, "goNEAT/v4/neat/math.") {
			return true
		}
	}
	return false
}

func c16PanicLine(out string) string {
	for _, line := range strings.Split(out, "\n") {
		if strings.HasPrefix(line, "panic:") || strings.HasPrefix(line, "fatal error:") {
			return line
		}
	}
	return ""
}

func tailStr(s string, n int) string {
	if len(s) > n {
		return s[len(s)-n:]
	}
	return s
}
