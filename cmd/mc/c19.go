package main

import (
	"bytes"
	"fmt"
	"math"
	"sort"

	"github.com/yaricom/goNEAT/v4/experiment"
	"github.com/yaricom/goNEAT/v4/neat/genetics"
	"time"
)

// C19 — result statistics equal their definitions for every series.
//
// E4: every sequence of length 0..L over a 11-symbol alphabet (so every order
// and tie pattern of every multiset occurs) against textbook definitions, and
// every experiment assembled from a small menu of generation records against
// aggregates recomputed directly from the records.

func init() { register("C19", "exploration", runC19, replayC19) }

// two large values that are close to each other make the mean huge relative to the spread
var c19Alphabet = []float64{-1e10, -2.5, -1e-10, 0, 1, 1, 3, 1e10, 1e-10, 1e9 + 4, 1e9 + 7}

func c19Series(idx, length int) experiment.Floats {
	x := make(experiment.Floats, length)
	for i := 0; i < length; i++ {
		x[i] = c19Alphabet[idx%len(c19Alphabet)]
		idx /= len(c19Alphabet)
	}
	return x
}

type statCall struct {
	name string
	fn   func(x experiment.Floats) float64
}

var c19Calls = []statCall{
	{"Min", func(x experiment.Floats) float64 { return x.Min() }},
	{"Max", func(x experiment.Floats) float64 { return x.Max() }},
	{"Sum", func(x experiment.Floats) float64 { return x.Sum() }},
	{"Mean", func(x experiment.Floats) float64 { return x.Mean() }},
	{"Variance", func(x experiment.Floats) float64 { return x.Variance() }},
	{"StdDev", func(x experiment.Floats) float64 { return x.StdDev() }},
	{"Median", func(x experiment.Floats) float64 { return x.Median() }},
	{"Q25", func(x experiment.Floats) float64 { return x.Q25() }},
	{"Q75", func(x experiment.Floats) float64 { return x.Q75() }},
	{"MeanVariance[0]", func(x experiment.Floats) float64 { return x.MeanVariance()[0] }},
	{"MeanVariance[1]", func(x experiment.Floats) float64 { return x.MeanVariance()[1] }},
}

func quantileRef(sorted []float64, p float64) float64 {
	i := int(math.Ceil(p*float64(len(sorted)))) - 1
	if i < 0 {
		i = 0
	}
	return sorted[i]
}

// c19Ref returns the expected value, an absolute tolerance, and whether the value is constrained.
func c19Ref(name string, x []float64) (want, tol float64, constrained bool) {
	n := len(x)
	if n == 0 {
		if name == "Sum" {
			return 0, 0, true
		}
		return math.NaN(), 0, true
	}
	sumAbs, sum := 0.0, 0.0
	for _, v := range x {
		sum += v
		sumAbs += math.Abs(v)
	}
	mean := sum / float64(n)
	sorted := append([]float64(nil), x...)
	sort.Float64s(sorted)
	ss := 0.0
	for _, v := range x {
		ss += (v - mean) * (v - mean)
	}
	switch name {
	case "Min":
		return sorted[0], 0, true
	case "Max":
		return sorted[n-1], 0, true
	case "Sum":
		return sum, 1e-12 * sumAbs, true
	case "Mean", "MeanVariance[0]":
		return mean, 1e-12 * sumAbs / float64(n), true
	case "Variance", "MeanVariance[1]", "StdDev":
		if n == 1 {
			return 0, 0, false // the unbiased estimator is 0/0 for one element: only "no panic" is demanded
		}
		v := ss / float64(n-1)
		// error bound of a textbook (two-pass) evaluation: each deviation x-mean carries an absolute error of a
		// few ulps of max|x|, so the sum of squares is off by at most ~ 2*eps*max|x|*sum|x-mean| (x16 for slack).
		// A formula that cancels catastrophically (sum of squares minus squared sum) is far outside this bound.
		maxAbs, sumDev := 0.0, 0.0
		for _, xv := range x {
			maxAbs = math.Max(maxAbs, math.Abs(xv))
			sumDev += math.Abs(xv - mean)
		}
		tolV := 1e-9*v + 16*2.3e-16*2*maxAbs*sumDev/float64(n-1)
		if name != "StdDev" {
			return v, tolV, true
		}
		sd := math.Sqrt(v)
		if sd == 0 {
			return 0, math.Sqrt(tolV), true
		}
		return sd, 1e-9*sd + tolV/(2*sd), true
	case "Median":
		return quantileRef(sorted, 0.5), 0, true
	case "Q25":
		return quantileRef(sorted, 0.25), 0, true
	case "Q75":
		return quantileRef(sorted, 0.75), 0, true
	}
	return 0, 0, false
}

func c19EvalSeries(x experiment.Floats) [][2]string {
	var fails [][2]string
	orig := append(experiment.Floats(nil), x...)
	for _, sc := range c19Calls {
		var got float64
		var pan interface{}
		func() {
			defer func() {
				if r := recover(); r != nil {
					pan = r
				}
			}()
			got = sc.fn(x)
		}()
		if pan != nil {
			fails = append(fails, [2]string{sc.name + "/panic", fmt.Sprintf("%s panicked: %v", sc.name, pan)})
			continue
		}
		want, tol, constrained := c19Ref(sc.name, orig)
		if !constrained {
			continue
		}
		if math.IsNaN(want) {
			if !math.IsNaN(got) {
				fails = append(fails, [2]string{sc.name + "/empty", fmt.Sprintf("%s of the empty series = %g, want NaN", sc.name, got)})
			}
			continue
		}
		if math.IsNaN(got) || math.Abs(got-want) > tol {
			fails = append(fails, [2]string{sc.name + "/value", fmt.Sprintf("%s = %g, definition gives %g", sc.name, got, want)})
		}
	}
	for i := range x {
		if math.Float64bits(x[i]) != math.Float64bits(orig[i]) {
			fails = append(fails, [2]string{"mutated-input", "a statistics accessor reordered or modified the caller's series"})
			break
		}
	}
	return fails
}

// ---- experiment aggregates ---------------------------------------------------

type genRec struct {
	Solved bool
	FitIdx int
	Div    int
}

// (fitness values include zero and a negative one: a trial may have no champion of positive fitness)
var c19GenMenu = []genRec{{false, 0, 1}, {false, 2, 3}, {true, 1, 1}, {true, 3, 3}, {false, 4, 1}, {true, 2, 1}}
var c19Fitness = []float64{0, 1, 2, 2, -1.25}

var c19ChampSpecs = []*GenomeSpec{xorSeed(), evolvedSeed(), disconnectedSeed(), evolvedSeed(), hbGenome(1, 1, 0)}

func c19Champion(fitIdx int) (*genetics.Organism, int, int) {
	g := c19ChampSpecs[fitIdx].Build()
	org, _ := genetics.NewOrganism(c19Fitness[fitIdx], g, 1)
	sp := genetics.NewSpecies(fitIdx + 1)
	sp.Age = 3 + 2*fitIdx
	org.Species = sp
	ph, _ := org.Phenotype()
	return org, ph.Complexity(), sp.Age
}

// winner statistics recorded by the evaluator: the evaluator fills them, so a solved generation may record
// 0 nodes (menu entry 5) or 0 genes (menu entry 3) - the aggregates still count that trial
func c19WinNodes(m int) int {
	if m == 5 {
		return 0
	}
	return 2 + m
}

func c19WinGenes(m int) int {
	if m == 3 {
		return 0
	}
	return 3 + 2*m
}

func c19Trial(id int, gens []int) experiment.Trial {
	t := experiment.Trial{Id: id}
	for gi, m := range gens {
		rec := c19GenMenu[m]
		org, _, _ := c19Champion(rec.FitIdx)
		g := experiment.Generation{Id: gi, TrialId: id, Solved: rec.Solved, Champion: org, Diversity: rec.Div,
			WinnerNodes: c19WinNodes(m), WinnerGenes: c19WinGenes(m), WinnerEvals: 10 * (gi + 1), Fitness: experiment.Floats{org.Fitness, 1, 0.5 * float64(m)},
			Age: experiment.Floats{float64(org.Species.Age), float64(2 + gi)}, Complexity: experiment.Floats{1, 4, float64(m), 7}}
		t.Generations = append(t.Generations, g)
	}
	return t
}

func c19TrialTypes(maxGens int) [][]int {
	res := [][]int{{}}
	prev := [][]int{{}}
	for l := 1; l <= maxGens; l++ {
		var cur [][]int
		for _, p := range prev {
			for m := range c19GenMenu {
				cur = append(cur, append(append([]int(nil), p...), m))
			}
		}
		res = append(res, cur...)
		prev = cur
	}
	return res
}

func c19EvalExperiment(trials [][]int) [][2]string {
	var fails [][2]string
	e := experiment.Experiment{Id: 1}
	for i, g := range trials {
		e.Trials = append(e.Trials, c19Trial(i, g))
	}
	var pan interface{}
	var bestFit, bestCx, bestAge, avgDiv, epochs experiment.Floats
	var solvedCnt int
	var rate float64
	var wn, wg, we, wd float64
	func() {
		defer func() {
			if r := recover(); r != nil {
				pan = r
			}
		}()
		bestFit, bestCx, bestAge = e.BestFitness(), e.BestComplexity(), e.BestSpeciesAge()
		avgDiv, epochs = e.AvgDiversity(), e.EpochsPerTrial()
		solvedCnt, rate = e.TrialsSolved(), e.SuccessRate()
		wn, wg, we, wd = e.AvgWinnerStatistics()
	}()
	if pan != nil {
		return [][2]string{{"experiment/panic", fmt.Sprintf("aggregate panicked: %v", pan)}}
	}
	nT := len(trials)
	if len(bestFit) != nT || len(bestCx) != nT || len(bestAge) != nT || len(avgDiv) != nT || len(epochs) != nT {
		return [][2]string{{"experiment/length", "per-trial aggregate has wrong length"}}
	}
	refSolved := 0
	var sn, sg, se, sd float64
	for ti, gens := range trials {
		if epochs[ti] != float64(len(gens)) {
			fails = append(fails, [2]string{"EpochsPerTrial", fmt.Sprintf("trial %d: %g, want %d", ti, epochs[ti], len(gens))})
		}
		solved := false
		firstSolved := -1
		for gi, m := range gens {
			if c19GenMenu[m].Solved && !solved {
				solved, firstSolved = true, gi
			}
		}
		if solved {
			refSolved++
			m := gens[firstSolved]
			sn += float64(c19WinNodes(m))
			sg += float64(c19WinGenes(m))
			se += float64(10 * (firstSolved + 1))
			sd += float64(c19GenMenu[m].Div)
		}
		if len(gens) == 0 {
			continue // the statement constrains trials with at least one generation
		}
		maxFit := math.Inf(-1)
		dsum := 0.0
		for _, m := range gens {
			if f := c19Fitness[c19GenMenu[m].FitIdx]; f > maxFit {
				maxFit = f
			}
			dsum += float64(c19GenMenu[m].Div)
		}
		if bestFit[ti] != maxFit {
			fails = append(fails, [2]string{"BestFitness", fmt.Sprintf("trial %d: %g, want %g", ti, bestFit[ti], maxFit)})
		}
		okCx, okAge := false, false
		for _, m := range gens {
			fi := c19GenMenu[m].FitIdx
			if c19Fitness[fi] == maxFit {
				_, cx, age := c19Champion(fi)
				if bestCx[ti] == float64(cx) {
					okCx = true
				}
				if bestAge[ti] == float64(age) {
					okAge = true
				}
			}
		}
		if !okCx {
			fails = append(fails, [2]string{"BestComplexity", fmt.Sprintf("trial %d: %g is not the complexity of a fittest champion", ti, bestCx[ti])})
		}
		if !okAge {
			fails = append(fails, [2]string{"BestSpeciesAge", fmt.Sprintf("trial %d: %g is not the species age of a fittest champion", ti, bestAge[ti])})
		}
		if !relClose(avgDiv[ti], dsum/float64(len(gens)), 1e-12) {
			fails = append(fails, [2]string{"AvgDiversity", fmt.Sprintf("trial %d: %g, want %g", ti, avgDiv[ti], dsum/float64(len(gens)))})
		}
	}
	if solvedCnt != refSolved {
		fails = append(fails, [2]string{"TrialsSolved", fmt.Sprintf("%d, want %d", solvedCnt, refSolved)})
	}
	wantRate := 0.0
	if nT > 0 {
		wantRate = float64(refSolved) / float64(nT)
	}
	if !relClose(rate, wantRate, 1e-12) {
		fails = append(fails, [2]string{"SuccessRate", fmt.Sprintf("%g, want %g", rate, wantRate)})
	}
	if refSolved > 0 {
		k := float64(refSolved)
		if !relClose(wn, sn/k, 1e-12) || !relClose(wg, sg/k, 1e-12) || !relClose(we, se/k, 1e-12) || !relClose(wd, sd/k, 1e-12) {
			fails = append(fails, [2]string{"AvgWinnerStatistics", fmt.Sprintf("(%g,%g,%g,%g), want (%g,%g,%g,%g)", wn, wg, we, wd, sn/k, sg/k, se/k, sd/k)})
		}
	}
	// trial-level accessors against the records
	for ti, gens := range trials {
		t := &e.Trials[ti]
		var cf, ca, cc, dv experiment.Floats
		var tsolved bool
		var bestAny, bestSolver *genetics.Organism
		var okAny, okSolver bool
		func() {
			defer func() {
				if r := recover(); r != nil {
					pan = r
				}
			}()
			cf, ca, cc, dv = t.ChampionsFitness(), t.ChampionSpeciesAges(), t.ChampionsComplexities(), t.Diversity()
			tsolved = t.Solved()
			bestAny, okAny = t.BestOrganism(false)
			bestSolver, okSolver = t.BestOrganism(true)
		}()
		if pan != nil {
			return [][2]string{{"trial/panic", fmt.Sprintf("trial accessor panicked: %v", pan)}}
		}
		if len(cf) != len(gens) || len(ca) != len(gens) || len(cc) != len(gens) || len(dv) != len(gens) {
			fails = append(fails, [2]string{"trial/length", fmt.Sprintf("trial %d: per-generation series have lengths %d/%d/%d/%d for %d generations", ti, len(cf), len(ca), len(cc), len(dv), len(gens))})
			continue
		}
		anySolved := false
		maxAny, maxSolver := math.Inf(-1), math.Inf(-1)
		for gi, m := range gens {
			rec := c19GenMenu[m]
			_, cx, age := c19Champion(rec.FitIdx)
			f := c19Fitness[rec.FitIdx]
			if cf[gi] != f || ca[gi] != float64(age) || cc[gi] != float64(cx) || dv[gi] != float64(rec.Div) {
				fails = append(fails, [2]string{"trial/per-generation", fmt.Sprintf("trial %d generation %d: (fitness %g, species age %g, complexity %g, diversity %g), the record gives (%g, %d, %d, %d)", ti, gi, cf[gi], ca[gi], cc[gi], dv[gi], f, age, cx, rec.Div)})
				break
			}
			if f > maxAny {
				maxAny = f
			}
			if rec.Solved {
				anySolved = true
				if f > maxSolver {
					maxSolver = f
				}
			}
		}
		if tsolved != anySolved {
			fails = append(fails, [2]string{"trial/Solved", fmt.Sprintf("trial %d: Solved() = %v, the records say %v", ti, tsolved, anySolved)})
		}
		if okAny != (len(gens) > 0) || (okAny && bestAny.Fitness != maxAny) {
			fails = append(fails, [2]string{"trial/BestOrganism", fmt.Sprintf("trial %d: BestOrganism(false) found=%v fitness=%v, the best champion fitness is %g", ti, okAny, fitOf(bestAny), maxAny)})
		}
		if okSolver != anySolved || (okSolver && bestSolver.Fitness != maxSolver) {
			fails = append(fails, [2]string{"trial/BestOrganism-solvers", fmt.Sprintf("trial %d: BestOrganism(true) found=%v fitness=%v, the best solver champion fitness is %g (solved=%v)", ti, okSolver, fitOf(bestSolver), maxSolver, anySolved)})
		}
	}
	// per-epoch means (Trial.Average) and what a caller may do with the series it got back: the series are
	// the caller's - appending to one or overwriting it must change neither the other series nor later answers
	mean := func(x experiment.Floats) float64 {
		s := 0.0
		for _, v := range x {
			s += v
		}
		return s / float64(len(x))
	}
	for ti, gens := range trials {
		t := &e.Trials[ti]
		var af, aa, ac experiment.Floats
		func() {
			defer func() {
				if r := recover(); r != nil {
					pan = r
				}
			}()
			af, aa, ac = t.Average()
		}()
		if pan != nil {
			return [][2]string{{"trial/panic", fmt.Sprintf("Trial.Average panicked: %v", pan)}}
		}
		check := func(stage string, af, aa, ac experiment.Floats) bool {
			if len(af) != len(gens) || len(aa) != len(gens) || len(ac) != len(gens) {
				fails = append(fails, [2]string{"trial/Average-length", fmt.Sprintf("trial %d%s: Average() series have lengths %d/%d/%d for %d generations", ti, stage, len(af), len(aa), len(ac), len(gens))})
				return false
			}
			for gi := range gens {
				g := t.Generations[gi]
				if !relClose(af[gi], mean(g.Fitness), 1e-12) || !relClose(aa[gi], mean(g.Age), 1e-12) || !relClose(ac[gi], mean(g.Complexity), 1e-12) {
					fails = append(fails, [2]string{"trial/Average", fmt.Sprintf("trial %d generation %d%s: Average() gives (fitness %g, age %g, complexity %g), the means of the recorded series are (%g, %g, %g)", ti, gi, stage, af[gi], aa[gi], ac[gi], mean(g.Fitness), mean(g.Age), mean(g.Complexity))})
					return false
				}
			}
			return true
		}
		if !check("", af, aa, ac) || len(gens) == 0 {
			continue
		}
		// pool the fitness series with more values (append), overwrite the complexity series
		af = append(af, 1e9, -1e9, 5)
		for i := range ac {
			ac[i] = -77
		}
		af2, aa2, ac2 := t.Average()
		if !check(" (second query, after the caller appended to / overwrote the series of the first)", af2, aa2, ac2) {
			continue
		}
		_ = append(aa, 123, 456)
		check(" (series of the first query, after the caller appended to its fitness series)", af[:len(gens)], aa, ac2)
	}
	// experiment-level: Solved, BestOrganism, AvgGenerationsPerTrial
	{
		anySolved := false
		best, bestSolver := math.Inf(-1), math.Inf(-1)
		total := 0
		for _, gens := range trials {
			total += len(gens)
			for _, m := range gens {
				f := c19Fitness[c19GenMenu[m].FitIdx]
				if f > best {
					best = f
				}
				if c19GenMenu[m].Solved {
					anySolved = true
					if f > bestSolver {
						bestSolver = f
					}
				}
			}
		}
		var es bool
		var bo, bs *genetics.Organism
		var okO, okS bool
		var agt float64
		func() {
			defer func() {
				if r := recover(); r != nil {
					pan = r
				}
			}()
			es = e.Solved()
			bo, _, okO = e.BestOrganism(false)
			bs, _, okS = e.BestOrganism(true)
			agt = e.AvgGenerationsPerTrial()
		}()
		if pan != nil {
			return [][2]string{{"experiment/panic", fmt.Sprintf("experiment accessor panicked: %v", pan)}}
		}
		if es != anySolved {
			fails = append(fails, [2]string{"Experiment.Solved", fmt.Sprintf("%v, the records say %v", es, anySolved)})
		}
		if okO != (total > 0) || (okO && bo.Fitness != best) {
			fails = append(fails, [2]string{"Experiment.BestOrganism", fmt.Sprintf("found=%v fitness=%v, the best champion fitness is %g", okO, fitOf(bo), best)})
		}
		if okS != anySolved || (okS && bs.Fitness != bestSolver) {
			fails = append(fails, [2]string{"Experiment.BestOrganism-solvers", fmt.Sprintf("found=%v fitness=%v, the best solver champion fitness is %g", okS, fitOf(bs), bestSolver)})
		}
		if nT > 0 && !relClose(agt, float64(total)/float64(nT), 1e-12) {
			fails = append(fails, [2]string{"AvgGenerationsPerTrial", fmt.Sprintf("%g, want %g", agt, float64(total)/float64(nT))})
		}
	}
	// the per-trial aggregates are the caller's too
	if nT > 0 {
		bf := e.BestFitness()
		_ = append(bf, 5)
		bf[0] = -12345
		if again := e.BestFitness(); len(again) != nT || again[0] != bestFit[0] {
			fails = append(fails, [2]string{"BestFitness-after-caller-wrote", "BestFitness() changed after the caller overwrote the series it got from an earlier call"})
		}
	}
	if len(fails) > 0 {
		return fails
	}
	// a usage sequence: query a trial in place, put its generations in chronological order in place
	// (Generations is a sortable collection), query again. For a trial with exactly ONE solved generation
	// the winner is unambiguous whatever the order of the records.
	t0 := time.Unix(1700000000, 0)
	for ti, gens := range trials {
		solvedAt := -1
		nSolved := 0
		for gi, m := range gens {
			if c19GenMenu[m].Solved {
				solvedAt = gi
				nSolved++
			}
		}
		if nSolved != 1 || len(gens) < 2 {
			continue
		}
		t := &e.Trials[ti]
		for gi := range t.Generations {
			t.Generations[gi].Executed = t0.Add(-time.Duration(gi) * time.Second) // recorded newest first
		}
		m := gens[solvedAt]
		want := [4]int{c19WinNodes(m), c19WinGenes(m), 10 * (solvedAt + 1), c19GenMenu[m].Div}
		var got1, got2 [4]int
		func() {
			defer func() {
				if r := recover(); r != nil {
					pan = r
				}
			}()
			got1[0], got1[1], got1[2], got1[3] = t.WinnerStatistics()
			sort.Sort(t.Generations)
			got2[0], got2[1], got2[2], got2[3] = t.WinnerStatistics()
		}()
		if pan != nil {
			return [][2]string{{"experiment/panic", fmt.Sprintf("WinnerStatistics / sort panicked: %v", pan)}}
		}
		if got1 != want {
			fails = append(fails, [2]string{"WinnerStatistics", fmt.Sprintf("trial %d: %v, the solved generation gives %v", ti, got1, want)})
		} else if got2 != want {
			fails = append(fails, [2]string{"WinnerStatistics-after-sort", fmt.Sprintf("trial %d: %v after its generations were sorted in place (before: %v), the solved generation gives %v", ti, got2, got1, want)})
		}
	}
	if len(fails) > 0 || nT == 0 {
		return fails
	}
	// a usage sequence: the experiment object has been queried (winner statistics through the slice
	// elements, as PrintStatistics does); then ANOTHER experiment with the same number of trials is read
	// into it; every aggregate must now describe the data just read
	other := make([][]int, nT)
	same := true
	for i := range trials {
		src := trials[(i+1)%nT]
		for k := len(src) - 1; k >= 0; k-- {
			other[i] = append(other[i], src[k])
		}
		if fmt.Sprint(other[i]) != fmt.Sprint(trials[i]) {
			same = false
		}
	}
	if same {
		return fails
	}
	e2 := experiment.Experiment{Id: 2}
	for i, g := range other {
		e2.Trials = append(e2.Trials, c19Trial(i, g))
	}
	var buf bytes.Buffer
	var werr, rerr error
	var gotW [][4]int
	var aw [4]float64
	var solved2 int
	var ep2 experiment.Floats
	func() {
		defer func() {
			if r := recover(); r != nil {
				pan = r
			}
		}()
		for i := range e.Trials {
			e.Trials[i].WinnerStatistics()
		}
		e.AvgWinnerStatistics()
		if werr = e2.Write(&buf); werr != nil {
			return
		}
		if rerr = e.Read(&buf); rerr != nil {
			return
		}
		for i := range e.Trials {
			var w [4]int
			w[0], w[1], w[2], w[3] = e.Trials[i].WinnerStatistics()
			gotW = append(gotW, w)
		}
		aw[0], aw[1], aw[2], aw[3] = e.AvgWinnerStatistics()
		solved2, ep2 = e.TrialsSolved(), e.EpochsPerTrial()
	}()
	if pan != nil {
		return [][2]string{{"experiment/panic", fmt.Sprintf("reading into a used experiment panicked: %v", pan)}}
	}
	if werr != nil || rerr != nil {
		return fails // C15 judges the encoding
	}
	if len(gotW) != nT || len(ep2) != nT {
		return [][2]string{{"read-into-used/length", fmt.Sprintf("after reading an experiment of %d trials into a used one it has %d trials", nT, len(gotW))}}
	}
	ref2 := 0
	var s2 [4]float64
	for ti, gens := range other {
		if ep2[ti] != float64(len(gens)) {
			fails = append(fails, [2]string{"read-into-used/EpochsPerTrial", fmt.Sprintf("trial %d: %g epochs after reading, the data read has %d", ti, ep2[ti], len(gens))})
		}
		for gi, m := range gens {
			if c19GenMenu[m].Solved {
				want := [4]int{c19WinNodes(m), c19WinGenes(m), 10 * (gi + 1), c19GenMenu[m].Div}
				if gotW[ti] != want {
					fails = append(fails, [2]string{"read-into-used/WinnerStatistics", fmt.Sprintf("trial %d: WinnerStatistics() = %v after another experiment was read into the (already queried) object; the generations just read give %v", ti, gotW[ti], want)})
				}
				ref2++
				for k := 0; k < 4; k++ {
					s2[k] += float64(want[k])
				}
				break
			}
		}
	}
	if solved2 != ref2 {
		fails = append(fails, [2]string{"read-into-used/TrialsSolved", fmt.Sprintf("%d after reading, the data read has %d solved trials", solved2, ref2)})
	}
	if ref2 > 0 {
		for k := 0; k < 4; k++ {
			if !relClose(aw[k], s2[k]/float64(ref2), 1e-12) {
				fails = append(fails, [2]string{"read-into-used/AvgWinnerStatistics", fmt.Sprintf("%v after reading, the data read gives %v / %d", aw, s2, ref2)})
				break
			}
		}
	}
	return fails
}

// c19Long: a series of n values (negative, zero and positive, with ties) in one of 2n+1 orders: rotation k of
// the ascending series (kind 0), rotation k of the descending series (kind 1), even positions then odd (kind 2).
func c19Long(n, kind, k int) experiment.Floats {
	base := make([]float64, n)
	for i := range base {
		base[i] = 1.5 * float64(i/2-n/6)
	}
	x := make(experiment.Floats, n)
	for i := range x {
		switch kind {
		case 0:
			x[i] = base[(i+k)%n]
		case 1:
			x[i] = base[n-1-(i+k)%n]
		default:
			if 2*i < n {
				x[i] = base[2*i]
			} else {
				x[i] = base[2*(i-(n+1)/2)+1]
			}
		}
	}
	return x
}

func runC19(c *Ctx) {
	L := 6
	maxTrials, maxGens := 2, 3
	if !c.Quick() {
		L = 8
	}
	c.Rule = fmt.Sprintf("all sequences of length 0..%d over the alphabet %v (every order and tie pattern of every multiset) x 11 accessors against textbook definitions (sorted-copy empirical quantile at ceil(p*n)); all experiments with 0..%d trials (thorough additionally 3 trials of <=2 generations) whose trials are generation sequences of length 0..%d over a 6-record menu, aggregates recomputed from the records; non-trivial = distinct sorted multiset / distinct experiment shape", L, c19Alphabet, maxTrials, maxGens)
	A := len(c19Alphabet)
	for length := 0; length <= L; length++ {
		n := 1
		for i := 0; i < length; i++ {
			n *= A
		}
		length := length
		chunk := 4096
		parFor((n+chunk-1)/chunk, func(ci int) {
			lo, hi := ci*chunk, (ci+1)*chunk
			if hi > n {
				hi = n
			}
			for idx := lo; idx < hi; idx++ {
				x := c19Series(idx, length)
				s := append([]float64(nil), x...)
				sort.Float64s(s)
				c.Distinct(hashString(fmt.Sprint(s)))
				for _, f := range c19EvalSeries(x) {
					c.ViolateOrd("C19/"+f[0], int64(length)<<40|int64(idx), fmt.Sprintf("%s for series %v", f[1], []float64(c19Series(idx, length))),
						&Replay{Scenario: "series", Params: map[string]interface{}{"idx": idx, "len": length}})
				}
			}
			c.AddEval(int64(hi-lo) * int64(len(c19Calls)))
		})
	}
	// long series: whatever threshold on the length an implementation may have lies inside
	maxLong := 96
	if !c.Quick() {
		maxLong = 400
	}
	parFor(maxLong+1, func(n int) {
		if n <= L {
			return
		}
		var evals int64
		for kind := 0; kind < 3; kind++ {
			for k := 0; k < n; k++ {
				if kind == 2 && k > 0 {
					break
				}
				x := c19Long(n, kind, k)
				evals += int64(len(c19Calls))
				for _, f := range c19EvalSeries(x) {
					c.ViolateOrd("C19/"+f[0], int64(1)<<50|int64(n)<<20|int64(kind)<<18|int64(k), fmt.Sprintf("%s for the series of %d values %v", f[1], n, []float64(c19Long(n, kind, k))),
						&Replay{Scenario: "long", Params: map[string]interface{}{"n": n, "kind": kind, "k": k}})
				}
			}
		}
		c.Distinct(hashString(fmt.Sprint("long", n)))
		c.AddEval(evals)
	})
	c.Rule += fmt.Sprintf("; LONG SERIES: for every length %d..%d the series 1.5*(i/2 - n/6) (negative, zero and positive values, ties) in every rotation of its ascending and of its descending order and in riffled order", L+1, maxLong)
	c.Sample(map[string]interface{}{"series": []float64{3, -2.5, 1, 1e10}, "median_ref": 1, "q75_ref": 3})
	// experiments
	types := c19TrialTypes(maxGens)
	evalExp := func(tr [][]int, ord int64) {
		c.AddEval(1)
		c.Distinct(hashString(fmt.Sprint("exp", tr)))
		for _, f := range c19EvalExperiment(tr) {
			c.ViolateOrd("C19/agg/"+f[0], ord, fmt.Sprintf("%s for experiment with trials (generation menu indices) %v", f[1], tr),
				&Replay{Scenario: "experiment", Params: map[string]interface{}{"trials": tr}})
		}
	}
	evalExp(nil, 0)
	for i, a := range types {
		evalExp([][]int{a}, int64(1+i))
	}
	parFor(len(types), func(i int) {
		for j, b := range types {
			evalExp([][]int{types[i], b}, int64(len(types))*(int64(i)+1)+int64(j))
		}
	})
	if !c.Quick() {
		small := c19TrialTypes(2)
		parFor(len(small), func(i int) {
			for _, b := range small {
				for _, d := range small {
					evalExp([][]int{small[i], b, d}, 1<<40)
				}
			}
		})
	}
	c.Sample(map[string]interface{}{"experiment_trials": [][]int{{0, 2}, {1}}, "menu": c19GenMenu})
	c.Extra["max_series_length"] = L
	c.Assume("series values come from a 11-symbol alphabet; variance/stddev of a one-element series are only required not to panic (the unbiased estimator is 0/0)")
}

func replayC19(c *Ctx, rp *Replay) (bool, string) {
	if rp.Scenario == "series" {
		x := c19Series(paramInt(rp, "idx"), paramInt(rp, "len"))
		if f := c19EvalSeries(x); len(f) > 0 {
			return true, fmt.Sprintf("%s for series %v", f[0][1], []float64(c19Series(paramInt(rp, "idx"), paramInt(rp, "len"))))
		}
		return false, fmt.Sprint([]float64(x))
	}
	if rp.Scenario == "long" {
		x := c19Long(paramInt(rp, "n"), paramInt(rp, "kind"), paramInt(rp, "k"))
		if f := c19EvalSeries(x); len(f) > 0 {
			return true, fmt.Sprintf("%s for series %v", f[0][1], []float64(c19Long(paramInt(rp, "n"), paramInt(rp, "kind"), paramInt(rp, "k"))))
		}
		return false, fmt.Sprint([]float64(x))
	}
	var tr [][]int
	if raw, ok := rp.Params["trials"].([]interface{}); ok {
		for _, t := range raw {
			var g []int
			if tl, ok := t.([]interface{}); ok {
				for _, v := range tl {
					g = append(g, int(v.(float64)))
				}
			}
			tr = append(tr, g)
		}
	}
	if f := c19EvalExperiment(tr); len(f) > 0 {
		return true, f[0][1]
	}
	return false, fmt.Sprint(tr)
}

func fitOf(o *genetics.Organism) interface{} {
	if o == nil {
		return nil
	}
	return o.Fitness
}
