package main

import (
	"fmt"
	"reflect"
	"unsafe"

	"github.com/yaricom/goNEAT/v4/neat"
	"github.com/yaricom/goNEAT/v4/neat/genetics"
	"github.com/yaricom/goNEAT/v4/neat/network"
)

// C06 — duplicating a genome gives an exact, independent copy.
//
// (i) E2: for every GenomeSpace state (plus modular and corner genomes): duplicate,
// compare field by field, walk both object graphs for shared pointers, then apply
// every mutator (under every choice sequence within the bound) to the copy and,
// separately, to the original, and require the other side's snapshot unchanged.
// (ii) E1 over population spawning: every spawned genome equals the start genome
// in everything but weights and the mutation numbers that mirror them.

func init() { register("C06", "model_checking", runC06, replayC06) }

func genomePointers(g *genetics.Genome) map[unsafe.Pointer]string {
	m := map[unsafe.Pointer]string{}
	for i, t := range g.Traits {
		m[unsafe.Pointer(t)] = fmt.Sprintf("trait[%d]", i)
		if len(t.Params) > 0 {
			m[unsafe.Pointer(&t.Params[0])] = fmt.Sprintf("trait[%d].Params", i)
		}
	}
	for i, n := range g.Nodes {
		m[unsafe.Pointer(n)] = fmt.Sprintf("node[%d]", i)
	}
	for i, gn := range g.Genes {
		m[unsafe.Pointer(gn)] = fmt.Sprintf("gene[%d]", i)
		m[unsafe.Pointer(gn.Link)] = fmt.Sprintf("gene[%d].Link", i)
	}
	for i, cg := range g.ControlGenes {
		m[unsafe.Pointer(cg)] = fmt.Sprintf("module[%d]", i)
		m[unsafe.Pointer(cg.ControlNode)] = fmt.Sprintf("module[%d].ControlNode", i)
		for j, l := range cg.ControlNode.Incoming {
			m[unsafe.Pointer(l)] = fmt.Sprintf("module[%d].in[%d]", i, j)
		}
		for j, l := range cg.ControlNode.Outgoing {
			m[unsafe.Pointer(l)] = fmt.Sprintf("module[%d].out[%d]", i, j)
		}
		for j, n := range cg.VIONodes() {
			_ = j
			_ = n
		}
	}
	return m
}

// c06Referenced lists every pointer the copy refers to (including through links and modules).
func c06Referenced(g *genetics.Genome) map[unsafe.Pointer]string {
	m := genomePointers(g)
	for i, n := range g.Nodes {
		if n.Trait != nil {
			m[unsafe.Pointer(n.Trait)] = fmt.Sprintf("node[%d].Trait", i)
		}
	}
	for i, gn := range g.Genes {
		m[unsafe.Pointer(gn.Link.InNode)] = fmt.Sprintf("gene[%d].Link.InNode", i)
		m[unsafe.Pointer(gn.Link.OutNode)] = fmt.Sprintf("gene[%d].Link.OutNode", i)
		if gn.Link.Trait != nil {
			m[unsafe.Pointer(gn.Link.Trait)] = fmt.Sprintf("gene[%d].Link.Trait", i)
		}
	}
	for i, cg := range g.ControlGenes {
		for j, l := range cg.ControlNode.Incoming {
			m[unsafe.Pointer(l.InNode)] = fmt.Sprintf("module[%d].in[%d].InNode", i, j)
		}
		for j, l := range cg.ControlNode.Outgoing {
			m[unsafe.Pointer(l.OutNode)] = fmt.Sprintf("module[%d].out[%d].OutNode", i, j)
		}
		for j, n := range cg.VIONodes() {
			m[unsafe.Pointer(n)] = fmt.Sprintf("module[%d].ioNodes[%d]", i, j)
		}
		if cg.ControlNode.Trait != nil {
			m[unsafe.Pointer(cg.ControlNode.Trait)] = fmt.Sprintf("module[%d].ControlNode.Trait", i)
		}
	}
	return m
}

// reachable walks the complete object graph below root (exported and unexported fields, slices, maps,
// interfaces) and returns the address of every heap object it references: pointer targets, slice
// backing arrays and maps. Zero-size objects and empty slices are skipped (the runtime gives all of
// them one address).
func reachable(root interface{}) map[unsafe.Pointer]string {
	seen := map[unsafe.Pointer]string{}
	var walk func(v reflect.Value, path string, depth int)
	walk = func(v reflect.Value, path string, depth int) {
		if depth > 60 {
			return
		}
		switch v.Kind() {
		case reflect.Ptr:
			if v.IsNil() || v.Type().Elem().Size() == 0 {
				return
			}
			p := unsafe.Pointer(v.Pointer())
			if _, ok := seen[p]; ok {
				return
			}
			seen[p] = path
			walk(v.Elem(), path, depth+1)
		case reflect.Interface:
			if !v.IsNil() {
				walk(v.Elem(), path, depth+1)
			}
		case reflect.Struct:
			for i := 0; i < v.NumField(); i++ {
				f := v.Field(i)
				if !f.CanInterface() && f.CanAddr() {
					f = reflect.NewAt(f.Type(), unsafe.Pointer(f.UnsafeAddr())).Elem()
				}
				walk(f, path+"."+v.Type().Field(i).Name, depth+1)
			}
		case reflect.Slice:
			if v.IsNil() || v.Cap() == 0 || v.Type().Elem().Size() == 0 {
				return
			}
			p := unsafe.Pointer(v.Pointer())
			if _, ok := seen[p]; !ok {
				seen[p] = path + "[]"
			}
			for i := 0; i < v.Len(); i++ {
				walk(v.Index(i), fmt.Sprintf("%s[%d]", path, i), depth+1)
			}
		case reflect.Array:
			for i := 0; i < v.Len(); i++ {
				walk(v.Index(i), fmt.Sprintf("%s[%d]", path, i), depth+1)
			}
		case reflect.Map:
			if v.IsNil() {
				return
			}
			p := unsafe.Pointer(v.Pointer())
			if _, ok := seen[p]; ok {
				return
			}
			seen[p] = path + "{}"
			for _, k := range v.MapKeys() {
				walk(v.MapIndex(k), fmt.Sprintf("%s{%v}", path, k), depth+1)
			}
		}
	}
	walk(reflect.ValueOf(root), "genome", 0)
	return seen
}

var c06Mutators = []string{"toggleEnable", "reEnable", "nodeTrait", "linkTrait", "randomTrait", "linkWeights", "addNode", "addLink", "connectSensors"}

type c06Case struct {
	State   *GenomeSpec `json:"state"`
	Mutator string      `json:"mutator"` // "" = duplicate only
	Side    string      `json:"side"`    // copy | original
	Used    bool        `json:"used"`    // the original has been expressed (Genesis) and its nodes carry learning parameters before it is duplicated
}

func c06Violate(c *Ctx, cs *c06Case, x *Exec, clause, msg string) {
	params := map[string]interface{}{"mutator": cs.Mutator, "side": cs.Side, "state": cs.State, "used": cs.Used, "policy": x.policy.String()}
	rp := &Replay{Scenario: "duplicate", Params: params, Answers: x.Answers(), Clause: msg, Trace: cs.State.Short()}
	c.ViolateOrd("C06/"+clause, int64(len(cs.State.Genes)*100+len(cs.State.Nodes)*10+len(cs.State.Modules)*5000), fmt.Sprintf("[duplicate of %s; then %s on the %s] %s", cs.State.Short(), cs.Mutator, cs.Side, msg), rp)
}

func c06Body(c *Ctx, cs *c06Case) func(x *Exec) {
	return func(x *Exec) {
		g := cs.State.Build()
		if cs.Used {
			// state left behind by earlier use of the original: a cached phenotype (Genesis stores a
			// reference to the phenotype node in every genome node) and user-set learning parameters
			if _, err := g.Genesis(1); err != nil {
				return
			}
			for i, n := range g.Nodes {
				n.Params = []float64{float64(i), 0.5}
			}
		}
		before := SpecOf(g)
		d, err := g.VDuplicate(g.Id + 100)
		if err != nil {
			c06Violate(c, cs, x, "duplicate-error", "duplicate returned an error: "+err.Error())
			return
		}
		if d.Id != g.Id+100 {
			c06Violate(c, cs, x, "id", fmt.Sprintf("the copy has id %d, %d was requested", d.Id, g.Id+100))
			return
		}
		copySpec := SpecOf(d)
		if copySpec.Key() != before.Key() {
			c06Violate(c, cs, x, "copy-differs", "the copy differs from the original: "+diffKeys(before.Key(), copySpec.Key()))
			return
		}
		if SpecOf(g).Key() != before.Key() {
			c06Violate(c, cs, x, "original-modified-by-duplicate", "duplicating modified the original")
			return
		}
		if msg := wellFormed(d); msg != "" && len(d.Genes) > 0 && wellFormed(cs.State.Build()) == "" {
			c06Violate(c, cs, x, "copy-ill-formed", "the copy is not well-formed: "+msg)
			return
		}
		own := genomePointers(g)
		for p, what := range c06Referenced(d) {
			if o, shared := own[p]; shared {
				c06Violate(c, cs, x, "shared-pointer", fmt.Sprintf("the copy's %s is the original's %s (shared mutable state)", what, o))
				return
			}
		}
		// generic walk: nothing reachable from the copy may be reachable from the original
		if cs.Mutator == "" {
			all := reachable(g)
			for p, what := range reachable(d) {
				if o, shared := all[p]; shared {
					c06Violate(c, cs, x, "shared-pointer", fmt.Sprintf("the object at the copy's %s is also reachable from the original (%s): shared mutable state", what, o))
					return
				}
			}
		}
		if cs.Used {
			// expressing the copy must not touch the original or its network
			onet := g.Phenotype
			var sig []float64
			if onet != nil {
				for _, n := range onet.AllNodes() {
					sig = append(sig, n.Activation, float64(n.ActivationsCount), float64(len(n.Incoming)), float64(len(n.Outgoing)))
				}
			}
			if _, err := d.Genesis(2); err == nil {
				if g.Phenotype != onet {
					c06Violate(c, cs, x, "not-independent", "expressing the copy replaced the original's cached network")
					return
				}
				k := 0
				for _, n := range onet.AllNodes() {
					for _, v := range []float64{n.Activation, float64(n.ActivationsCount), float64(len(n.Incoming)), float64(len(n.Outgoing))} {
						if !sameF(v, sig[k]) {
							c06Violate(c, cs, x, "not-independent", "expressing the copy changed the original's network")
							return
						}
						k++
					}
				}
				for i, n := range g.Nodes {
					if n.PhenotypeAnalogue != nil && d.Nodes[i].PhenotypeAnalogue == n.PhenotypeAnalogue {
						c06Violate(c, cs, x, "shared-pointer", fmt.Sprintf("after expressing both, node %d of the copy and of the original refer to the same network node", n.Id))
						return
					}
				}
			}
		}
		if cs.Mutator == "" {
			return
		}
		target, other, otherBefore, otherName := d, g, before, "original"
		if cs.Side == "original" {
			target, other, otherBefore, otherName = g, d, copySpec, "copy"
		}
		obs := &searchObserver{nextInnov: 1000, nextNode: 1000}
		_, _, _ = applyOp(cs.Mutator, target, nil, obs, gsOptions(), 1)
		if k := SpecOf(other).Key(); k != otherBefore.Key() {
			c06Violate(c, cs, x, "not-independent", fmt.Sprintf("%s on the %s changed the %s: %s", cs.Mutator, cs.Side, otherName, diffKeys(otherBefore.Key(), k)))
		}
		x.EndHash = hashString(SpecOf(target).Key())
	}
}

func modularSeed(enabled bool) *GenomeSpec {
	s := xorSeed()
	s.Nodes = append(s.Nodes, NodeSpec{5, network.HiddenNeuron, xorSeed().Nodes[3].Act, 2}, NodeSpec{6, network.HiddenNeuron, xorSeed().Nodes[3].Act, 0})
	s.Genes = append(s.Genes, GeneSpec{In: 2, Out: 5, W: 1.0 / 3, Innov: 4, Mut: 1.0 / 3, En: true, Trait: 2},
		GeneSpec{In: 3, Out: 6, W: -2.5, Innov: 5, Mut: 1, En: false, Trait: 3})
	s.Modules = []ModuleSpec{{Innov: 6, Mut: 5.5, En: enabled, NodeID: 7, Act: 21, Trait: 1, Inputs: []int{5, 6}, Outputs: []int{4}, InW: []float64{1, 1}, OutW: []float64{1}}}
	return s
}

func c06Corners() []*GenomeSpec {
	a := evolvedSeed()
	for i := range a.Genes {
		a.Genes[i].En = i == 2
	}
	b := evolvedSeed()
	for i := range b.Genes {
		b.Genes[i].Trait = 0
	}
	for i := range b.Nodes {
		b.Nodes[i].Trait = 0
	}
	d := evolvedSeed()
	for i := range d.Nodes {
		if d.Nodes[i].Role == network.HiddenNeuron {
			d.Nodes[i].Act = 5 + d.Nodes[i].Act
		}
	}
	// two modules, one of them disabled; and a genome with unsorted nodes and genes
	two := modularSeed(true)
	two.Modules = append(two.Modules, ModuleSpec{Innov: 9, Mut: 2.5, En: false, NodeID: 8, Act: 22, Trait: 2, Inputs: []int{2, 5}, Outputs: []int{6, 4}, InW: []float64{1, 1}, OutW: []float64{1, 1}})
	// self-loop genes that are NOT flagged recurrent (legal for the readers and constructors), with and without a trait
	loops := evolvedSeed()
	loops.Genes = append(loops.Genes, GeneSpec{In: 4, Out: 4, W: 0.7, Innov: 10, Mut: 0.7, En: true, Trait: 0}, GeneSpec{In: 6, Out: 6, W: -2, Innov: 11, Mut: 1, En: false, Trait: 2})
	// trait ids that are no permutation of 1..n (the readers accept any ids), with an unreferenced trait in the middle
	sparse := evolvedSeed()
	sparse.Traits = []TraitSpec{{2, params8(0.1)}, {7, params8(0.9)}, {40, params8(1.5)}, {41, params8(-0.5)}}
	for i := range sparse.Nodes {
		sparse.Nodes[i].Trait = []int{40, 2, 0, 41}[i%4]
	}
	for i := range sparse.Genes {
		sparse.Genes[i].Trait = []int{41, 2, 40}[i%3]
	}
	return []*GenomeSpec{a, b, d, modularSeed(true), modularSeed(false), two, unsortedSeed(), loops, sparse}
}

func runC06(c *Ctx) {
	// collect the GenomeSpace states (no oracle during the search), then run the duplicate cases
	fams, names := gsFamilies()
	type unit struct {
		fam    int
		corner bool
	}
	units := []unit{}
	for i := range fams {
		units = append(units, unit{fam: i})
	}
	units = append(units, unit{corner: true})
	c.Dynamic = true
	c.Sharded(len(units), func(ui int) {
		u := units[ui]
		var states []*GenomeSpec
		if u.corner {
			states = c06Corners()
		} else {
			cfg := gsBounds(c)
			cfg.MaxDepth--
			if cfg.MaxDepth > 3 {
				cfg.MaxDepth = 3
			}
			cfg.Seeds, cfg.SeedNames, cfg.Prop = fams[u.fam], names[u.fam], "C06"
			cfg.WithMating = false
			gs := newGenomeSpace(c, cfg)
			gs.Search()
			c.Transitions = 0 // only the duplicate cases count as transitions of this check
			c.Evaluations, c.Traces = 0, 0
			for _, st := range gs.order {
				states = append(states, st.Spec)
			}
		}
		dev := 1
		if !c.Quick() {
			dev = 2
		}
		var execs int64
		for si, st := range states {
			if c.Expired() {
				c.MarkCapped("internal deadline reached before every state was duplicated")
				break
			}
			cases := []*c06Case{{State: st}, {State: st, Used: true}}
			if len(st.Modules) == 0 || true {
				for _, m := range c06Mutators {
					cases = append(cases, &c06Case{State: st, Mutator: m, Side: "copy"}, &c06Case{State: st, Mutator: m, Side: "original"})
				}
			}
			for _, cs := range cases {
				for _, pn := range []string{"Z", "A"} {
					ex := &Explorer{Policy: parsePolicy(pn), MaxDev: dev, Horizon: 400, Stop: c.Expired}
					ex.Body = c06Body(c, cs)
					cs := cs
					ex.OnPanic = func(x *Exec, r interface{}, stack string) {
						c06Violate(c, cs, x, "panic", fmt.Sprintf("panic: %v", r))
					}
					ex.Run()
					execs += ex.Executions
					if cs.Mutator == "" {
						break
					}

				}
			}
			c.Distinct(hashString(st.Key()))
			if si == len(states)/2 {
				c.Sample(map[string]interface{}{"state": st.Short(), "cases": "duplicate; then each of 9 mutators on the copy and on the original, every choice sequence within the bound"})
			}
		}
		c.mu.Lock()
		c.Evaluations += execs
		c.Traces += execs
		c.Transitions += execs
		c.mu.Unlock()
		c.Count("states_duplicated", int64(len(states)))
	})
	// (ii) spawning
	c06Spawn(c)
	c.States = int64(len(c.distinct))
	c.Rule = "every GenomeSpace state (six + one families of start genomes closed under the unary operators to the stated depth) plus corner genomes (all genes disabled but one, no trait references, non-default activation types, trait ids {2,7,40,41} with one trait unreferenced, a modular genome with an enabled and with a disabled module): duplicate, compare bit for bit (id excepted), walk both object graphs for shared pointers (traits, parameter arrays, nodes, genes, links, modules and everything they reference), then each of 9 mutators applied to the copy and, separately, to the original under every choice sequence within the deviation bound, the other side's snapshot must stay unchanged. Plus population spawning (sizes 1-4, every start genome, all draw sequences within the bound): spawned genomes equal the start genome except for weights, and mutation number == weight. states = distinct genomes duplicated, transitions = duplicate(+mutate) executions"
	c.Assume("Go toolchain, go build -overlay, the instrumenter and the accessor file are trusted")
}

// c06Spawn: NewPopulation from every start genome; E1 over the whole spawn.
func c06Spawn(c *Ctx) {
	seeds := []*GenomeSpec{xorSeed(), disconnectedSeed(), evolvedSeed(), modularSeed(true), c06Corners()[0]}
	names := []string{"xor", "disc", "evolved", "modular", "mostly-disabled"}
	type unit struct{ seed, size int }
	var units []unit
	for s := range seeds {
		for n := 1; n <= 4; n++ {
			units = append(units, unit{s, n})
		}
	}
	c.Sharded(len(units), func(i int) {
		u := units[i]
		spec := seeds[u.seed]
		dev := 2
		if !c.Quick() {
			dev = 3
		}
		if u.size >= 3 && c.Quick() {
			dev = 1
		}
		var execs int64
		for _, pn := range []string{"Z", "M", "H", "A"} {
			ex := &Explorer{Policy: parsePolicy(pn), MaxDev: dev, Horizon: 5000, Stop: c.Expired}
			ex.Body = func(x *Exec) {
				opts := baseOptions()
				opts.PopSize = u.size
				start := spec.Build()
				pop, err := genetics.NewPopulation(start, opts)
				viol := func(clause, msg string) {
					rp := &Replay{Scenario: "spawn", Params: map[string]interface{}{"seed": names[u.seed], "size": u.size, "policy": x.policy.String()}, Answers: x.Answers(), Clause: msg}
					c.ViolateOrd("C06/spawn/"+clause, int64(u.size*100+u.seed), fmt.Sprintf("[NewPopulation(%s, size %d)] %s", names[u.seed], u.size, msg), rp)
				}
				if err != nil {
					viol("error", "NewPopulation failed: "+err.Error())
					return
				}
				if SpecOf(start).Key() != spec.Key() {
					viol("start-genome-modified", "spawning modified the start genome: "+diffKeys(spec.Key(), SpecOf(start).Key()))
					return
				}
				h := newFnv()
				for _, o := range pop.Organisms {
					s := SpecOf(o.Genotype)
					hashGenome(&h, o.Genotype)
					for gi := range s.Genes {
						if !sameF(s.Genes[gi].Mut, s.Genes[gi].W) {
							viol("mutation-number", fmt.Sprintf("organism %d gene #%d: mutation number %g does not mirror the weight %g", o.Genotype.Id, s.Genes[gi].Innov, s.Genes[gi].Mut, s.Genes[gi].W))
							return
						}
						s.Genes[gi].W, s.Genes[gi].Mut = spec.Genes[gi%len(spec.Genes)].W, spec.Genes[gi%len(spec.Genes)].Mut
					}
					if s.Key() != spec.Key() {
						viol("topology-differs", fmt.Sprintf("organism %d differs from the start genome in more than weights: %s", o.Genotype.Id, diffKeys(spec.Key(), s.Key())))
						return
					}
				}
				x.EndHash = uint64(h)
				c.Distinct(x.EndHash)
			}
			ex.Run()
			execs += ex.Executions
		}
		c.mu.Lock()
		c.Evaluations += execs
		c.Traces += execs
		c.Transitions += execs
		c.mu.Unlock()
		c.Count("spawn_executions", execs)
	})
}

func replayC06(c *Ctx, rp *Replay) (bool, string) {
	switch rp.Scenario {
	case "duplicate":
		var cs c06Case
		js, _ := jsonMarshal(rp.Params)
		_ = jsonUnmarshal(js, &cs)
		ex := &Explorer{Policy: parsePolicy(paramStr(rp, "policy")), Horizon: 2000}
		ex.Body = c06Body(c, &cs)
		var pan interface{}
		ex.OnPanic = func(x *Exec, r interface{}, stack string) { pan = r }
		ex.RunOne(rp.Answers)
		if pan != nil {
			return true, fmt.Sprintf("panic: %v", pan)
		}
		if c.ViolationCount() > 0 {
			return true, c.violations[0].Msg
		}
		return false, "duplicate of " + cs.State.Short()
	}
	return false, "spawn replays: re-run the check (scenario is deterministic from its parameters)"
}

var _ = neat.NumTraitParams
