package main

import (
	"bufio"
	"crypto/sha256"
	"encoding/binary"
	"encoding/hex"
	"encoding/json"
	"fmt"
	"os"
	"os/exec"
	"path/filepath"
	"runtime"
	"sort"
	"strconv"
	"strings"
	"sync"
	"time"
)

const verifRoot = "/verif"

// outRoot is where a run writes (evidence, replays, scratch). It is /verif unless VERIF_OUT
// redirects it, which tools/seedrun.sh uses to try a seeded change on a private copy of the
// repository without touching /repo, /verif/evidence or a check that is running concurrently.
var outRoot = func() string {
	if d := os.Getenv("VERIF_OUT"); d != "" {
		return d
	}
	return verifRoot
}()

// Replay is the self-contained description of one failing execution.
type Replay struct {
	Property string                 `json:"property"`
	Scenario string                 `json:"scenario"`
	Params   map[string]interface{} `json:"params,omitempty"`
	Answers  IntList                `json:"answers,omitempty"`
	Schedule IntList                `json:"schedule,omitempty"`
	Clause   string                 `json:"clause"`
	Trace    string                 `json:"trace,omitempty"`
	Repro    string                 `json:"reproducer_test,omitempty"`
}

// IntList marshals as one string "0 1 2 ..." (answer lists run to thousands of
// entries and MarshalIndent would put each on its own line); it unmarshals from
// that form or from a plain JSON array.
type IntList []int

func (l IntList) MarshalJSON() ([]byte, error) {
	var b strings.Builder
	b.WriteByte('"')
	for i, v := range l {
		if i > 0 {
			b.WriteByte(' ')
		}
		b.WriteString(strconv.Itoa(v))
	}
	b.WriteByte('"')
	return []byte(b.String()), nil
}

func (l *IntList) UnmarshalJSON(data []byte) error {
	*l = nil
	if len(data) > 0 && data[0] == '[' {
		var a []int
		if err := json.Unmarshal(data, &a); err != nil {
			return err
		}
		*l = a
		return nil
	}
	var s string
	if err := json.Unmarshal(data, &s); err != nil {
		return err
	}
	for _, f := range strings.Fields(s) {
		v, err := strconv.Atoi(f)
		if err != nil {
			return err
		}
		*l = append(*l, v)
	}
	return nil
}

// Violation is one reported failure of the property.
type Violation struct {
	Ord    int64   `json:"ord"`
	Sig    string  `json:"sig"`
	Msg    string  `json:"msg"`
	Replay *Replay `json:"replay"`
}

type knownFinding struct {
	Kind      string `json:"kind"` // "known" or "fixed"
	Property  string `json:"property"`
	Signature string `json:"signature,omitempty"`
	Text      string `json:"text"`
}

// Ctx collects what one run of one check covered.
type Ctx struct {
	ID, Tier, Level string
	Seed            int64
	start           time.Time
	deadline        time.Time

	mu          sync.Mutex
	Evaluations int64
	States      int64
	Transitions int64
	Traces      int64
	Rule        string
	Samples     []interface{}
	Extra       map[string]interface{}
	Counters    map[string]int64
	Assumptions []string
	Exhaustive  bool
	Notes       []string
	violations  []*Violation
	vioSeen     map[string]bool
	distinct    map[uint64]struct{}

	// Dynamic makes Sharded hand out indices on demand (first come, first served)
	// instead of i%N; incompatible with OnCrash's re-run of a fixed shard.
	Dynamic        bool
	shardCall      int
	isWorker       bool
	shardK, shardN int
	workerOut      string
	traceFile      *os.File
	// OnCrash, if set, turns a crashed or hung worker into a verdict: it receives the
	// last case index the worker announced through Trace (re-run in trace mode) and the
	// tail of its stderr.
	OnCrash func(lastCase int64, detail string)
}

// Trace announces the case about to be evaluated; it is a no-op unless the worker
// was restarted in trace mode after a crash or hang.
func (c *Ctx) Trace(idx int64) {
	if c.traceFile != nil {
		var b [8]byte
		binary.LittleEndian.PutUint64(b[:], uint64(idx))
		_, _ = c.traceFile.WriteAt(b[:], 0)
	}
}

func newCtx(id, tier, level string) *Ctx {
	seed := int64(1)
	if s := os.Getenv("VERIF_SEED"); s != "" {
		if v, err := strconv.ParseInt(s, 10, 64); err == nil {
			seed = v
		}
	}
	c := &Ctx{ID: id, Tier: tier, Level: level, Seed: seed, start: time.Now(), Extra: map[string]interface{}{},
		Counters: map[string]int64{}, vioSeen: map[string]bool{}, distinct: map[uint64]struct{}{}, Exhaustive: true}
	budget := 150 * time.Second
	if tier == "thorough" {
		budget = 25 * time.Minute
	}
	if s := os.Getenv("VERIF_BUDGET_S"); s != "" {
		if v, err := strconv.Atoi(s); err == nil {
			budget = time.Duration(v) * time.Second
		}
	}
	c.deadline = c.start.Add(budget)
	return c
}

func (c *Ctx) Quick() bool { return c.Tier == "quick" }

// Expired reports whether the internal deadline has passed; a check that stops
// because of it reports exhaustive:false and still exits 0.
func (c *Ctx) Expired() bool { return time.Now().After(c.deadline) }

func (c *Ctx) MarkCapped(what string) {
	c.mu.Lock()
	defer c.mu.Unlock()
	c.Exhaustive = false
	for _, n := range c.Notes {
		if n == what {
			return
		}
	}
	c.Notes = append(c.Notes, what)
}

func (c *Ctx) Count(name string, d int64) {
	c.mu.Lock()
	c.Counters[name] += d
	c.mu.Unlock()
}

func (c *Ctx) AddEval(n int64) {
	c.mu.Lock()
	c.Evaluations += n
	c.mu.Unlock()
}

// Distinct records the hash of one distinct non-trivial case / end state.
func (c *Ctx) Distinct(h uint64) {
	c.mu.Lock()
	if len(c.distinct) < 4_000_000 {
		c.distinct[h] = struct{}{}
	}
	c.mu.Unlock()
}

func (c *Ctx) Sample(s interface{}) {
	c.mu.Lock()
	if len(c.Samples) < 6 {
		c.Samples = append(c.Samples, s)
	}
	c.mu.Unlock()
}

func (c *Ctx) Assume(s string) { c.Assumptions = append(c.Assumptions, s) }

// Violate records a violation (deduplicated by signature, first 40 kept).
func (c *Ctx) Violate(sig, msg string, rp *Replay) { c.ViolateOrd(sig, 1<<62, msg, rp) }

// ViolateOrd is Violate with an order key: among violations with the same
// signature the one with the smallest key (the simplest case) is kept, so the
// reported counterexample does not depend on worker timing.
func (c *Ctx) ViolateOrd(sig string, ord int64, msg string, rp *Replay) {
	c.mu.Lock()
	defer c.mu.Unlock()
	if rp != nil {
		rp.Property = c.ID
		if rp.Clause == "" {
			rp.Clause = msg
		}
	}
	if c.vioSeen[sig] {
		for _, v := range c.violations {
			if v.Sig == sig && ord < v.Ord {
				v.Ord, v.Msg, v.Replay = ord, msg, rp
			}
		}
		return
	}
	c.vioSeen[sig] = true
	if len(c.violations) >= 40 {
		return
	}
	c.violations = append(c.violations, &Violation{Ord: ord, Sig: sig, Msg: msg, Replay: rp})
}

func (c *Ctx) ViolationCount() int {
	c.mu.Lock()
	defer c.mu.Unlock()
	return len(c.violations)
}

func hashBytes(b []byte) uint64 {
	s := sha256.Sum256(b)
	return binary.LittleEndian.Uint64(s[:8])
}

func hashString(s string) uint64 { return hashBytes([]byte(s)) }

func loadKnown() []knownFinding {
	f, err := os.Open(filepath.Join(verifRoot, "known_findings.jsonl"))
	if err != nil {
		return nil
	}
	defer f.Close()
	var res []knownFinding
	sc := bufio.NewScanner(f)
	sc.Buffer(make([]byte, 1<<20), 1<<20)
	for sc.Scan() {
		line := strings.TrimSpace(sc.Text())
		if line == "" || strings.HasPrefix(line, "#") {
			continue
		}
		var k knownFinding
		if err := json.Unmarshal([]byte(line), &k); err == nil {
			res = append(res, k)
		}
	}
	return res
}

// finish writes the evidence file, prints the verdict lines and returns the exit status.
func (c *Ctx) finish() int {
	if c.isWorker {
		c.writeWorkerResult()
		return 0
	}
	known := loadKnown()
	isKnown := func(v *Violation) *knownFinding {
		for i := range known {
			k := &known[i]
			if k.Kind == "known" && k.Property == c.ID && k.Signature == v.Sig {
				return k
			}
		}
		return nil
	}
	exit := 0
	newV := 0
	sort.SliceStable(c.violations, func(i, j int) bool { return c.violations[i].Sig < c.violations[j].Sig })
	for _, v := range c.violations {
		if k := isKnown(v); k != nil {
			fmt.Printf("KNOWN-FINDING: property=%s %s\n", c.ID, k.Text)
			continue
		}
		newV++
		path := c.writeReplay(v)
		fmt.Printf("VIOLATION property=%s replay=%s\n", c.ID, path)
		fmt.Printf("  %s: %s\n", v.Sig, v.Msg)
		exit = 1
	}
	c.writeEvidence(newV)
	st := "held on everything explored"
	if exit != 0 {
		st = "VIOLATED"
	}
	fmt.Printf("%s %s: %s; evaluations=%d distinct=%d states=%d transitions=%d exhaustive=%v wall=%.1fs\n",
		c.ID, c.Tier, st, c.Evaluations, len(c.distinct), c.States, c.Transitions, c.Exhaustive, time.Since(c.start).Seconds())
	for _, n := range c.Notes {
		fmt.Printf("  note: %s\n", n)
	}
	return exit
}

func (c *Ctx) writeReplay(v *Violation) string {
	dir := filepath.Join(outRoot, "replays")
	_ = os.MkdirAll(dir, 0o755)
	h := sha256.Sum256([]byte(v.Sig))
	path := filepath.Join(dir, fmt.Sprintf("%s-%s.json", c.ID, hex.EncodeToString(h[:5])))
	rp := v.Replay
	if rp == nil {
		rp = &Replay{Property: c.ID, Scenario: "unreplayable", Clause: v.Msg}
	}
	if rp.Params == nil {
		rp.Params = map[string]interface{}{}
	}
	rp.Params["signature"] = v.Sig
	if rp.Repro == "" {
		rp.Repro = fmt.Sprintf("cd /verif && ./check %s --replay %s   # rebuilds from /repo's working tree and re-executes this ONE recorded execution (no exploration); prints VIOLATION and exits 1 when the recorded clause reproduces, exits 0 when it does not", c.ID, path)
	}
	js, _ := json.MarshalIndent(rp, "", " ")
	_ = os.WriteFile(path, js, 0o644)
	return path
}

func (c *Ctx) writeEvidence(nviol int) {
	if os.Getenv("VERIF_NO_EVIDENCE") != "" {
		return
	}
	cov := map[string]interface{}{}
	for k, v := range c.Extra {
		cov[k] = v
	}
	if len(c.Counters) > 0 {
		cov["counters"] = c.Counters
	}
	cov["evaluations"] = c.Evaluations
	cov["distinct_nontrivial"] = len(c.distinct)
	cov["rule"] = c.Rule
	samples := c.Samples
	if len(samples) == 0 {
		samples = []interface{}{"(no sample recorded)"}
	}
	cov["samples"] = samples
	cov["exhaustive"] = c.Exhaustive
	if c.Level == "model_checking" {
		st, tr := c.States, c.Transitions
		if st == 0 {
			st = int64(len(c.distinct))
		}
		if tr == 0 {
			tr = c.Evaluations
		}
		cov["states"] = st
		cov["transitions"] = tr
		cov["traces_validated_against_impl"] = c.Traces
	}
	if len(c.Notes) > 0 {
		cov["notes"] = c.Notes
	}
	ev := map[string]interface{}{
		"property_id": c.ID,
		"tier":        c.Tier,
		"seed":        c.Seed,
		"level":       c.Level,
		"coverage":    cov,
		"assumptions": c.Assumptions,
		"wall_s":      time.Since(c.start).Seconds(),
		"violations":  nviol,
	}
	if ev["assumptions"] == nil || len(c.Assumptions) == 0 {
		ev["assumptions"] = []string{"Go toolchain, go build -overlay and the instrumenter are trusted"}
	}
	js, _ := json.MarshalIndent(ev, "", " ")
	dir := filepath.Join(outRoot, "evidence")
	_ = os.MkdirAll(dir, 0o755)
	if err := os.WriteFile(filepath.Join(dir, c.ID+".json"), append(js, '\n'), 0o644); err != nil {
		fmt.Fprintln(os.Stderr, "cannot write evidence:", err)
		os.Exit(2)
	}
}

// ---------------------------------------------------------------------------
// in-process parallelism (for checks that need no process-global hook)

func workers() int {
	n := runtime.NumCPU()
	if n > 16 {
		n = 16
	}
	if n < 1 {
		n = 1
	}
	return n
}

// parFor runs body(i) for i in [0,n) on all cores; body must be goroutine-safe.
func parFor(n int, body func(i int)) {
	w := workers()
	var wg sync.WaitGroup
	next := int64(0)
	var mu sync.Mutex
	var firstPanic interface{}
	for k := 0; k < w; k++ {
		wg.Add(1)
		go func() {
			defer wg.Done()
			defer func() {
				if r := recover(); r != nil {
					mu.Lock()
					if firstPanic == nil {
						firstPanic = r
					}
					mu.Unlock()
				}
			}()
			for {
				mu.Lock()
				i := int(next)
				next++
				mu.Unlock()
				if i >= n {
					return
				}
				body(i)
			}
		}()
	}
	wg.Wait()
	if firstPanic != nil {
		panic(firstPanic)
	}
}

// ---------------------------------------------------------------------------
// process sharding (for checks that install the process-global random hook)

type workerResult struct {
	Evaluations int64                  `json:"evaluations"`
	States      int64                  `json:"states"`
	Transitions int64                  `json:"transitions"`
	Traces      int64                  `json:"traces"`
	Samples     []interface{}          `json:"samples"`
	Counters    map[string]int64       `json:"counters"`
	Extra       map[string]interface{} `json:"extra"`
	Violations  []*Violation           `json:"violations"`
	Exhaustive  bool                   `json:"exhaustive"`
	Notes       []string               `json:"notes"`
	Distinct    []uint64               `json:"distinct"`
}

func (c *Ctx) writeWorkerResult() {
	r := workerResult{Evaluations: c.Evaluations, States: c.States, Transitions: c.Transitions, Traces: c.Traces,
		Samples: c.Samples, Counters: c.Counters, Extra: c.Extra, Violations: c.violations, Exhaustive: c.Exhaustive, Notes: c.Notes}
	r.Distinct = make([]uint64, 0, len(c.distinct))
	for h := range c.distinct {
		r.Distinct = append(r.Distinct, h)
	}
	js, _ := json.Marshal(r)
	if err := os.WriteFile(c.workerOut, js, 0o644); err != nil {
		fmt.Fprintln(os.Stderr, "worker: cannot write result:", err)
		os.Exit(2)
	}
}

func runWorker(id, tier string, k, n int, out string) {
	def, ok := checks[id]
	if !ok {
		fmt.Fprintln(os.Stderr, "worker: unknown check", id)
		os.Exit(2)
	}
	c := newCtx(id, tier, def.level)
	c.isWorker, c.shardK, c.shardN, c.workerOut = true, k, n, out
	if tf := os.Getenv("VERIF_TRACE_FILE"); tf != "" {
		if f, err := os.OpenFile(tf, os.O_CREATE|os.O_RDWR, 0o644); err == nil {
			c.traceFile = f
		}
	}
	if s := os.Getenv("VERIF_DEADLINE_UNIX"); s != "" {
		if v, err := strconv.ParseInt(s, 10, 64); err == nil {
			c.deadline = time.Unix(v, 0)
		}
	}
	def.run(c)
	c.writeWorkerResult()
}

// Sharded runs body(i) for every scenario index i in [0,n). In the parent
// process it starts one worker process per core, each of which re-enters the
// same check and executes only the scenarios i with i%N == k; the parent merges
// the workers' coverage. Scenario bodies may install process-global hooks.
func (c *Ctx) Sharded(n int, body func(i int)) {
	c.shardCall++
	if c.isWorker {
		// a check may call Sharded several times (stages); a worker serves exactly one of them
		if t := os.Getenv("VERIF_SHARD_CALL"); t != "" && t != strconv.Itoa(c.shardCall) {
			return
		}
		if dir := os.Getenv("VERIF_CLAIM_DIR"); dir != "" {
			// dynamic balancing: a worker claims the next unclaimed index by creating a file exclusively
			for i := 0; i < n; i++ {
				f, err := os.OpenFile(filepath.Join(dir, strconv.Itoa(i)), os.O_CREATE|os.O_EXCL|os.O_WRONLY, 0o644)
				if err != nil {
					continue
				}
				f.Close()
				body(i)
			}
			return
		}
		for i := c.shardK; i < n; i += c.shardN {
			body(i)
		}
		return
	}
	N := workers()
	if N > n {
		N = n
	}
	claimDir := ""
	if c.Dynamic && N > 1 && os.Getenv("VERIF_INPROC") == "" {
		claimDir = filepath.Join(outRoot, "build", "tmp", fmt.Sprintf("claim-%s-%d-%d", c.ID, os.Getpid(), c.shardCall))
		_ = os.RemoveAll(claimDir)
		_ = os.MkdirAll(claimDir, 0o755)
		defer os.RemoveAll(claimDir)
	}
	if N <= 1 || os.Getenv("VERIF_INPROC") != "" {
		for i := 0; i < n; i++ {
			body(i)
		}
		return
	}
	tmp := filepath.Join(outRoot, "build", "tmp")
	_ = os.MkdirAll(tmp, 0o755)
	var wg sync.WaitGroup
	results := make([]*workerResult, N)
	errs := make([]error, N)
	for k := 0; k < N; k++ {
		wg.Add(1)
		go func(k int) {
			defer wg.Done()
			out := filepath.Join(tmp, fmt.Sprintf("%s-%d-%d.json", c.ID, os.Getpid(), k))
			run := func(trace string, limit time.Duration) (error, string) {
				cmd := exec.Command(os.Args[0], "worker", c.ID, c.Tier, strconv.Itoa(k), strconv.Itoa(N), out)
				cmd.Env = append(os.Environ(), "GOMAXPROCS=2", "VERIF_DEADLINE_UNIX="+strconv.FormatInt(c.deadline.Unix(), 10))
				if trace != "" {
					cmd.Env = append(cmd.Env, "VERIF_TRACE_FILE="+trace)
				}
				if claimDir != "" {
					cmd.Env = append(cmd.Env, "VERIF_CLAIM_DIR="+claimDir)
				}
				cmd.Env = append(cmd.Env, "VERIF_SHARD_CALL="+strconv.Itoa(c.shardCall))
				var tail tailBuffer
				cmd.Stderr = &tail
				cmd.Stdout = &tail
				if err := cmd.Start(); err != nil {
					return err, ""
				}
				done := make(chan error, 1)
				go func() { done <- cmd.Wait() }()
				select {
				case err := <-done:
					return err, tail.String()
				case <-time.After(limit):
					_ = cmd.Process.Kill()
					<-done
					return fmt.Errorf("worker exceeded the hang guard of %s", limit), tail.String()
				}
			}
			guard := time.Until(c.deadline) + 2*time.Minute
			t0 := time.Now()
			err, tail := run("", guard)
			if err != nil {
				if c.OnCrash == nil {
					os.Stderr.WriteString(tail)
					errs[k] = fmt.Errorf("worker %d: %v", k, err)
					return
				}
				// re-run in trace mode to learn which case crashes or hangs
				tf := out + ".trace"
				_ = os.Remove(tf)
				limit2 := 3*time.Since(t0) + time.Minute
				if limit2 > guard {
					limit2 = guard
				}
				err2, tail2 := run(tf, limit2)
				last := int64(-1)
				if b, e := os.ReadFile(tf); e == nil && len(b) >= 8 {
					last = int64(binary.LittleEndian.Uint64(b[:8]))
				}
				_ = os.Remove(tf)
				if err2 == nil {
					errs[k] = fmt.Errorf("worker %d failed (%v) but succeeded in trace mode: not reproducible", k, err)
					return
				}
				if len(tail2) > 1500 {
					tail2 = tail2[:1500]
				}
				c.OnCrash(last, fmt.Sprintf("%v; %s", err2, tail2))
				results[k] = &workerResult{Exhaustive: false, Notes: []string{"a worker crashed or hung; its shard was not completed"}}
				return
			}
			data, err := os.ReadFile(out)
			if err != nil {
				errs[k] = err
				return
			}
			_ = os.Remove(out)
			var r workerResult
			if err := json.Unmarshal(data, &r); err != nil {
				errs[k] = err
				return
			}
			results[k] = &r
		}(k)
	}
	wg.Wait()
	for _, e := range errs {
		if e != nil {
			panic(fmt.Sprintf("sharded run failed: %v", e))
		}
	}
	for _, r := range results {
		c.Evaluations += r.Evaluations
		c.States += r.States
		c.Transitions += r.Transitions
		c.Traces += r.Traces
		for _, s := range r.Samples {
			c.Sample(s)
		}
		for k, v := range r.Counters {
			c.Counters[k] += v
		}
		for k, v := range r.Extra {
			if _, ok := c.Extra[k]; !ok {
				c.Extra[k] = v
			}
		}
		for _, v := range r.Violations {
			c.ViolateOrd(v.Sig, v.Ord, v.Msg, v.Replay)
		}
		if !r.Exhaustive {
			c.Exhaustive = false
		}
		for _, n := range r.Notes {
			c.MarkCapped(n)
		}
		for _, h := range r.Distinct {
			c.Distinct(h)
		}
	}
}

// ---------------------------------------------------------------------------
// replay

func runReplay(c *Ctx, def *checkDef, path string) int {
	data, err := os.ReadFile(path)
	if err != nil {
		fmt.Fprintln(os.Stderr, "replay:", err)
		return 2
	}
	var rp Replay
	if err := json.Unmarshal(data, &rp); err != nil {
		fmt.Fprintln(os.Stderr, "replay:", err)
		return 2
	}
	if def.replay == nil {
		fmt.Fprintln(os.Stderr, "replay: not supported for", c.ID)
		return 2
	}
	bad, msg := def.replay(c, &rp)
	if bad {
		fmt.Printf("VIOLATION property=%s replay=%s\n  %s\n", c.ID, path, msg)
		return 1
	}
	fmt.Printf("%s replay %s: property holds on this execution (%s)\n", c.ID, path, msg)
	return 0
}

func paramInt(rp *Replay, key string) int {
	switch v := rp.Params[key].(type) {
	case float64:
		return int(v)
	case int:
		return v
	}
	return 0
}

func paramStr(rp *Replay, key string) string {
	if v, ok := rp.Params[key].(string); ok {
		return v
	}
	return ""
}

// tailBuffer keeps the first 64 KiB written to it (enough for a Go crash header).
type tailBuffer struct {
	mu sync.Mutex
	b  []byte
}

func (t *tailBuffer) Write(p []byte) (int, error) {
	t.mu.Lock()
	if len(t.b) < 65536 {
		t.b = append(t.b, p...)
	}
	t.mu.Unlock()
	return len(p), nil
}

func (t *tailBuffer) String() string {
	t.mu.Lock()
	defer t.mu.Unlock()
	return string(t.b)
}
