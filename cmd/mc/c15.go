package main

import (
	"bytes"
	"fmt"
	"math"
	"os"
	"path/filepath"
	"strings"
	"time"

	"github.com/yaricom/goNEAT/v4/experiment"
	"github.com/yaricom/goNEAT/v4/neat/genetics"
	neatmath "github.com/yaricom/goNEAT/v4/neat/math"
	"github.com/yaricom/goNEAT/v4/neat/network"
)

// C15 — everything the library writes it reads back unchanged.
//
// E4: a family of genomes (start genomes, GenomeSpace states, corner genomes,
// every gene / trait parameter re-weighted with every hard float in turn, every
// registered activation type, trait-reference patterns, node layouts, modules)
// through every encoding; organisms, populations (every multiset of <= 3 genomes
// of a sub-family), fast-solver models and experiments.

func init() { register("C15", "exploration", runC15, replayC15) }

var c15Floats = append(append([]float64(nil), hardFloats...), 1e-5, 123456789012345678, -1e-300, 0.1+0.2, -math.MaxFloat64, 2.5e-10, 1e20, 1e22)

// normKey is Key with negative zero folded into zero (the encodings are text; the sign of a
// zero weight carries no genetic information and is not demanded).
func normKey(s *GenomeSpec) string {
	c := *s
	nz := func(f float64) float64 {
		if f == 0 {
			return 0
		}
		return f
	}
	c.Genes = append([]GeneSpec(nil), s.Genes...)
	for i := range c.Genes {
		c.Genes[i].W, c.Genes[i].Mut = nz(c.Genes[i].W), nz(c.Genes[i].Mut)
	}
	c.Traits = nil
	for _, t := range s.Traits {
		nt := TraitSpec{ID: t.ID}
		for _, p := range t.Params {
			nt.Params = append(nt.Params, nz(p))
		}
		c.Traits = append(c.Traits, nt)
	}
	c.Modules = append([]ModuleSpec(nil), s.Modules...)
	for i := range c.Modules {
		c.Modules[i].Mut = nz(c.Modules[i].Mut)
	}
	return c.Key()
}

func c15BaseGenomes() []*GenomeSpec {
	late := c11Case{Layout: 1, Pass: 1, Code: 4242}.spec()
	late.Traits = []TraitSpec{{1, params8(0.3)}}
	two := c11Case{Layout: 2, Pass: 2, Code: 333}.spec()
	gs := []*GenomeSpec{xorSeed(), disconnectedSeed(), evolvedSeed(), hbGenome(3, 2, 1), late, two}
	gs = append(gs, c06Corners()[:3]...)
	gs = append(gs, unsortedSeed())
	return gs
}

// c15Family: the genomes whose round trip is checked (plain and YAML).
func c15Family(c *Ctx) (fam []*GenomeSpec, modular []*GenomeSpec) {
	base := c15BaseGenomes()
	fam = append(fam, base...)
	// every gene / trait parameter re-weighted with every float in turn
	for _, b := range base[:4] {
		for gi := range b.Genes {
			for fi, f := range c15Floats {
				g := cloneSpec(b)
				g.Genes[gi].W = f
				g.Genes[gi].Mut = c15Floats[(fi+3)%len(c15Floats)]
				fam = append(fam, g)
			}
		}
		for ti := range b.Traits {
			for pi := range b.Traits[ti].Params {
				g := cloneSpec(b)
				g.Traits[ti].Params[pi] = c15Floats[(ti*8+pi)%len(c15Floats)]
				fam = append(fam, g)
			}
		}
	}
	// every registered scalar activation type on the hidden nodes / the output
	for _, s := range c18Scalars {
		g := cloneSpec(evolvedSeed())
		for i := range g.Nodes {
			if g.Nodes[i].Role == network.HiddenNeuron || g.Nodes[i].Role == network.OutputNeuron {
				g.Nodes[i].Act = s.code
			}
		}
		fam = append(fam, g)
	}
	// trait reference patterns
	for pat := 0; pat < 3; pat++ {
		g := cloneSpec(evolvedSeed())
		for i := range g.Genes {
			switch pat {
			case 0:
				g.Genes[i].Trait = 1 + i%2
			case 1:
				g.Genes[i].Trait = (i % 3)
			case 2:
				g.Genes[i].Trait = 0
			}
		}
		for i := range g.Nodes {
			if pat == 2 {
				g.Nodes[i].Trait = 0
			} else if pat == 0 {
				g.Nodes[i].Trait = 1 + i%2
			}
		}
		fam = append(fam, g)
	}
	// GenomeSpace states
	fams, names := gsFamilies()
	for _, fi := range []int{0, 2, 6} {
		cfg := gsBounds(c)
		cfg.MaxDepth = 2
		if !c.Quick() {
			cfg.MaxDepth = 3
		}
		cfg.WithMating = fi == 0
		cfg.MaxStates = 1500
		// only the reached genomes matter here, not the operator trees: small balls, short budget
		cfg.OpDev, cfg.ParamDev, cfg.MateDev, cfg.BudgetS = 1, 1, 1, 60
		cfg.Seeds, cfg.SeedNames, cfg.Prop = fams[fi], names[fi], "C15"
		tmp := newCtx("C15", c.Tier, c.Level)
		tmp.deadline = c.deadline
		gs := newGenomeSpace(tmp, cfg)
		gs.Search()
		for _, st := range gs.order {
			fam = append(fam, st.Spec)
		}
	}
	// modular genomes (YAML only)
	for _, en := range []bool{true, false} {
		m := modularSeed(en)
		modular = append(modular, m)
		for _, act := range []neatmath.NodeActivationType{21, 22, 23} {
			g := cloneSpec(m)
			g.Modules[0].Act = act
			g.Modules[0].Trait = int(act) % 3
			modular = append(modular, g)
		}
		g := cloneSpec(m)
		g.Modules = append(g.Modules, ModuleSpec{Innov: 9, Mut: 1e21, En: !en, NodeID: 8, Act: 22, Trait: 0, Inputs: []int{2, 3, 5}, Outputs: []int{6, 4}, InW: []float64{1, 1, 1}, OutW: []float64{1, 1}})
		modular = append(modular, g)
	}
	return
}

func cloneSpec(s *GenomeSpec) *GenomeSpec {
	js, _ := jsonMarshal(s)
	var c GenomeSpec
	_ = jsonUnmarshal(js, &c)
	// JSON cannot carry every float exactly as typed constants do, but round-trips float64 exactly
	return &c
}

type c15Fail struct{ clause, msg string }

func c15Genome(g *GenomeSpec, modular bool) (fails []c15Fail, trips int64) {
	want := normKey(g)
	gen := g.Build()
	origWellFormed := wellFormed(g.Build()) == ""
	check := func(what string, got *genetics.Genome, err error, wantID int) {
		trips++
		if err != nil {
			fails = append(fails, c15Fail{what + "/error", fmt.Sprintf("%s failed: %v", what, err)})
			return
		}
		if k := normKey(SpecOf(got)); k != want {
			fails = append(fails, c15Fail{what + "/differs", fmt.Sprintf("%s: the genome read back differs: %s", what, diffKeys(want, k))})
			return
		}
		if got.Id != wantID {
			fails = append(fails, c15Fail{what + "/id", fmt.Sprintf("%s: genome id %d read back as %d", what, wantID, got.Id)})
		}
		// references must point into the genome read back
		if msg := wellFormed(got); msg != "" && len(got.Genes) > 0 && origWellFormed {
			fails = append(fails, c15Fail{what + "/ill-formed", fmt.Sprintf("%s: the genome read back is not well-formed: %s", what, msg)})
		}
	}
	if !modular {
		var buf bytes.Buffer
		if err := gen.Write(&buf); err != nil {
			fails = append(fails, c15Fail{"plain/write-error", err.Error()})
		} else {
			text := buf.String()
			r, err := genetics.NewGenomeReader(strings.NewReader(text), genetics.PlainGenomeEncoding)
			if err == nil {
				var got *genetics.Genome
				got, err = r.Read()
				check("plain Write -> GenomeReader.Read", got, err, g.ID)
			}
			got, err := genetics.ReadGenome(strings.NewReader(text), 77)
			check("plain Write -> ReadGenome", got, err, 77)
			w, err := genetics.NewGenomeWriter(&buf, genetics.PlainGenomeEncoding)
			_ = w
			_ = err
		}
	}
	var ybuf bytes.Buffer
	yw, err := genetics.NewGenomeWriter(&ybuf, genetics.YAMLGenomeEncoding)
	if err == nil {
		err = yw.WriteGenome(gen)
	}
	if err != nil {
		fails = append(fails, c15Fail{"yaml/write-error", err.Error()})
	} else {
		var got *genetics.Genome
		func() {
			defer func() {
				if r := recover(); r != nil {
					err = fmt.Errorf("panic: %v", r)
				}
			}()
			var r genetics.GenomeReader
			r, err = genetics.NewGenomeReader(bytes.NewReader(ybuf.Bytes()), genetics.YAMLGenomeEncoding)
			if err == nil {
				got, err = r.Read()
			}
		}()
		check("YAML WriteGenome -> GenomeReader.Read", got, err, g.ID)
	}
	return
}

// c15Files: the genome written to a file and read back with NewGenomeReaderFromFile, which chooses the
// encoding from the file name (.yml / .yaml: YAML, anything else: plain).
func c15Files(g *GenomeSpec, dir string, idx int) (fails []c15Fail) {
	gen := g.Build()
	want := normKey(g)
	for _, f := range []struct {
		name string
		enc  genetics.GenomeEncoding
	}{{"genome.yml", genetics.YAMLGenomeEncoding}, {"genome.yaml", genetics.YAMLGenomeEncoding}, {"genome.txt", genetics.PlainGenomeEncoding}, {"startgenes", genetics.PlainGenomeEncoding}, {"yml.genome", genetics.PlainGenomeEncoding}} {
		path := filepath.Join(dir, fmt.Sprintf("%d-%s", idx, f.name))
		var buf bytes.Buffer
		w, err := genetics.NewGenomeWriter(&buf, f.enc)
		if err == nil {
			err = w.WriteGenome(gen)
		}
		if err != nil {
			fails = append(fails, c15Fail{"file/write-error", err.Error()})
			continue
		}
		if err := os.WriteFile(path, buf.Bytes(), 0o644); err != nil {
			panic(err)
		}
		r, err := genetics.NewGenomeReaderFromFile(path)
		var got *genetics.Genome
		if err == nil {
			func() {
				defer func() {
					if p := recover(); p != nil {
						err = fmt.Errorf("panic: %v", p)
					}
				}()
				got, err = r.Read()
			}()
		}
		_ = os.Remove(path)
		if err != nil {
			fails = append(fails, c15Fail{"file/read-error", fmt.Sprintf("NewGenomeReaderFromFile(%s).Read failed: %v", f.name, err)})
			continue
		}
		if k := normKey(SpecOf(got)); k != want {
			fails = append(fails, c15Fail{"file/differs", fmt.Sprintf("genome written to %s and read with NewGenomeReaderFromFile differs: %s", f.name, diffKeys(want, k))})
		}
	}
	return
}

func c15Organism(g *GenomeSpec, fit float64, generation int) (fails []c15Fail) {
	gen := g.Build()
	o, _ := genetics.NewOrganism(fit, gen, generation)
	data, err := o.MarshalBinary()
	if err != nil {
		return []c15Fail{{"organism/marshal-error", err.Error()}}
	}
	var back genetics.Organism
	if err := back.UnmarshalBinary(data); err != nil {
		return []c15Fail{{"organism/unmarshal-error", fmt.Sprintf("UnmarshalBinary failed: %v (fitness %g, generation %d)", err, fit, generation)}}
	}
	if !sameF(back.Fitness, fit) || back.Generation != generation {
		fails = append(fails, c15Fail{"organism/fields", fmt.Sprintf("organism (fitness %g, generation %d) read back as (fitness %g, generation %d)", fit, generation, back.Fitness, back.Generation)})
	}
	if back.Genotype == nil || normKey(SpecOf(back.Genotype)) != normKey(g) {
		d := "nil genotype"
		if back.Genotype != nil {
			d = diffKeys(normKey(g), normKey(SpecOf(back.Genotype)))
		}
		fails = append(fails, c15Fail{"organism/genome", "the organism's genome read back differs: " + d})
	} else if back.Genotype.Id != g.ID {
		fails = append(fails, c15Fail{"organism/genome-id", fmt.Sprintf("genome id %d read back as %d", g.ID, back.Genotype.Id)})
	}
	if len(fails) > 0 || len(gen.Genes) == 0 {
		return
	}
	// the same organism written again after its genotype changed (in place, and by replacement): the
	// second binary form restores the genome it has NOW
	gen.Genes[0].Link.ConnectionWeight += 0.5
	gen.Genes[0].IsEnabled = !gen.Genes[0].IsEnabled
	o.Fitness = fit + 1
	for step, want := range []*GenomeSpec{SpecOf(gen), cloneSpec(xorSeed())} {
		if step == 1 {
			o.Genotype = want.Build()
		}
		data2, err := o.MarshalBinary()
		if err != nil {
			return []c15Fail{{"organism/marshal-error", "second MarshalBinary: " + err.Error()}}
		}
		var back2 genetics.Organism
		if err := back2.UnmarshalBinary(data2); err != nil {
			return []c15Fail{{"organism/unmarshal-error", "UnmarshalBinary of the second binary form failed: " + err.Error()}}
		}
		if back2.Genotype == nil || normKey(SpecOf(back2.Genotype)) != normKey(want) || !sameF(back2.Fitness, fit+1) {
			d := "nil genotype"
			if back2.Genotype != nil {
				d = diffKeys(normKey(want), normKey(SpecOf(back2.Genotype)))
			}
			return []c15Fail{{"organism/second-marshal", fmt.Sprintf("an organism marshalled again after its genotype changed (%s) restores fitness %g and a genome that differs from the current one: %s", []string{"in place", "replaced"}[step], back2.Fitness, d)}}
		}
	}
	return
}

// c15ModelOrders: fast-solver models whose connection list is in every order (the order decides the
// order of summation, i.e. the last bit of the outputs): three weighted links into a linear output.
func c15ModelOrders() (fails []c15Fail) {
	defer func() {
		if r := recover(); r != nil {
			fails = []c15Fail{{"model/panic", fmt.Sprintf("writing, reading back or running a directly constructed solver panicked: %v", r)}}
		}
	}()
	lin := neatmath.LinearActivation
	acts := []neatmath.NodeActivationType{lin, lin, lin, lin} // 3 inputs, 1 output
	w := []float64{0.1, 0.2, 0.3}
	perms := [][]int{{0, 1, 2}, {0, 2, 1}, {1, 0, 2}, {1, 2, 0}, {2, 0, 1}, {2, 1, 0}}
	inputs := [][]float64{{1, 1, 1}, {0.1, 0.7, 0.3}, {1e16, 1, -1e16}, {3, -1.1, 0.7}}
	for _, perm := range perms {
		var conns []*network.FastNetworkLink
		for _, k := range perm {
			conns = append(conns, &network.FastNetworkLink{SourceIndex: k, TargetIndex: 3, Weight: w[k]})
		}
		orig := network.NewFastModularNetworkSolver(0, 3, 1, 4, acts, conns, make([]float64, 4), nil)
		var buf bytes.Buffer
		if err := orig.WriteModel(&buf); err != nil {
			return []c15Fail{{"model/write-error", err.Error()}}
		}
		back, err := network.ReadFMNSModel(bytes.NewReader(buf.Bytes()))
		if err != nil {
			return []c15Fail{{"model/read-error", err.Error()}}
		}
		for mode := 0; mode < 3; mode++ {
			for _, in := range inputs {
				run := func(s network.Solver) string {
					_, _ = s.Flush()
					if err := s.LoadSensors(in); err != nil {
						return "load:" + err.Error()
					}
					var err error
					switch mode {
					case 0:
						_, err = s.ForwardSteps(1)
					case 1:
						_, err = s.RecursiveSteps()
					case 2:
						_, err = s.Relax(2, 1e-300)
					}
					if err != nil {
						return "err:" + err.Error()
					}
					return outputsBits(s)
				}
				if a, b := run(orig), run(back); a != b {
					return []c15Fail{{"model/outputs-differ", fmt.Sprintf("solver with connections listed in source order %v, mode %d, input %v: the original gives %s, the restored one %s", perm, mode, in, a, b)}}
				}
			}
		}
	}
	return nil
}

// c15Population: genome ids 0,1,2,.. ; then the same population with ids that are not the positions - all equal
// (an archive of champions, parents kept beside their offspring: every generation numbers its genomes from 0)
// and descending with gaps.
func c15Population(gs []*GenomeSpec) (fails []c15Fail) {
	for mode := 0; mode < 3 && len(fails) == 0; mode++ {
		fails = c15PopulationIDs(gs, mode)
	}
	return fails
}

func c15PopulationIDs(gs []*GenomeSpec, idMode int) (fails []c15Fail) {
	idOf := func(i int) int {
		switch idMode {
		case 1:
			return 7
		case 2:
			return 100 - 3*i
		}
		return i
	}
	pop := genetics.VNewEmptyPopulation()
	for i, g := range gs {
		c := cloneSpec(g)
		c.ID = idOf(i)
		o, _ := genetics.NewOrganism(0, c.Build(), 1)
		pop.Organisms = append(pop.Organisms, o)
	}
	var buf bytes.Buffer
	if err := pop.Write(&buf); err != nil {
		return []c15Fail{{"population/write-error", err.Error()}}
	}
	opts := baseOptions()
	opts.PopSize = len(gs)
	back, err := genetics.ReadPopulation(bytes.NewReader(buf.Bytes()), opts)
	if err != nil {
		return []c15Fail{{"population/read-error", "ReadPopulation failed: " + err.Error()}}
	}
	if len(back.Organisms) != len(gs) {
		return []c15Fail{{"population/count", fmt.Sprintf("%d genomes written, %d read back", len(gs), len(back.Organisms))}}
	}
	for i, g := range gs {
		if k := normKey(SpecOf(back.Organisms[i].Genotype)); k != normKey(g) {
			return []c15Fail{{"population/genome-differs", fmt.Sprintf("genome #%d of the population read back differs: %s", i, diffKeys(normKey(g), k))}}
		}
		if back.Organisms[i].Genotype.Id != idOf(i) {
			return []c15Fail{{"population/genome-id", fmt.Sprintf("genome #%d (written with id %d) read back with id %d", i, idOf(i), back.Organisms[i].Genotype.Id)}}
		}
		if msg := wellFormed(back.Organisms[i].Genotype); msg != "" && wellFormed(g.Build()) == "" {
			return []c15Fail{{"population/ill-formed", fmt.Sprintf("genome #%d read back is not well-formed: %s", i, msg)}}
		}
	}
	return nil
}

func outputsBits(s network.Solver) string {
	var b strings.Builder
	for _, o := range s.ReadOutputs() {
		fmt.Fprintf(&b, "%016x,", math.Float64bits(o))
	}
	return b.String()
}

// c15Model: WriteModel -> ReadFMNSModel gives a solver with bit-identical outputs.
func c15Model(g *GenomeSpec, ni int) (fails []c15Fail) {
	build := func() (network.Solver, error) {
		net, err := g.Build().Genesis(1)
		if err != nil {
			return nil, err
		}
		return net.FastNetworkSolver()
	}
	orig, err := build()
	if err != nil {
		return nil
	}
	var buf bytes.Buffer
	fs, ok := orig.(*network.FastModularNetworkSolver)
	if !ok {
		return nil
	}
	if err := fs.WriteModel(&buf); err != nil {
		return []c15Fail{{"model/write-error", err.Error()}}
	}
	back, err := network.ReadFMNSModel(bytes.NewReader(buf.Bytes()))
	if err != nil {
		return []c15Fail{{"model/read-error", "ReadFMNSModel failed: " + err.Error()}}
	}
	if back.NodeCount() != fs.NodeCount() || back.LinkCount() != fs.LinkCount() {
		fails = append(fails, c15Fail{"model/counts", fmt.Sprintf("restored solver has %d nodes / %d links, the original %d / %d", back.NodeCount(), back.LinkCount(), fs.NodeCount(), fs.LinkCount())})
	}
	inputs := [][]float64{{0}, {1}, {-0.5}, {2}}
	if ni == 2 {
		inputs = [][]float64{{0, 1}, {1, -0.5}, {2, 2}, {-0.5, 0}}
	}
	modes := []string{"ForwardSteps(3)", "Relax(5,1e-9)", "RecursiveSteps"}
	for mi, mode := range modes {
		a, _ := build()
		var bbuf bytes.Buffer
		_ = a.(*network.FastModularNetworkSolver).WriteModel(&bbuf)
		b, err := network.ReadFMNSModel(bytes.NewReader(bbuf.Bytes()))
		if err != nil {
			return []c15Fail{{"model/read-error", err.Error()}}
		}
		for _, in := range inputs {
			run := func(s network.Solver) string {
				if err := s.LoadSensors(in); err != nil {
					return "load:" + err.Error()
				}
				var err error
				switch mi {
				case 0:
					_, err = s.ForwardSteps(3)
				case 1:
					_, err = s.Relax(5, 1e-9)
				case 2:
					_, err = s.RecursiveSteps()
				}
				if err != nil {
					return "err:" + err.Error()
				}
				return outputsBits(s)
			}
			ra, rb := run(a), run(b)
			if ra != rb {
				return append(fails, c15Fail{"model/outputs-differ", fmt.Sprintf("%s on input %v: the original solver gives %s, the restored one %s", mode, in, ra, rb)})
			}
		}
	}
	return
}

// c15Experiment: Write -> Read restores trials, generations, champions and the derived statistics.
func c15Experiment(trials [][]int, champs []*GenomeSpec) (fails []c15Fail) {
	e := experiment.Experiment{Id: 7, Name: "round trip"}
	t0 := time.Unix(1700000000, 0).UTC()
	for i, gens := range trials {
		t := c19Trial(i, gens)
		for gi := range t.Generations {
			g := &t.Generations[gi]
			cg := cloneSpec(champs[(i+gi)%len(champs)])
			org, _ := genetics.NewOrganism(c15Floats[(i*3+gi)%len(c15Floats)], cg.Build(), gi)
			org.IsWinner = g.Solved
			org.Error = 0.25 * float64(gi)
			g.Champion = org
			g.Executed = t0.Add(time.Duration(i*100+gi) * time.Second)
			g.Duration = time.Duration(gi+1) * time.Millisecond
			g.Fitness = experiment.Floats{org.Fitness, 0.5}
			g.Age = experiment.Floats{float64(gi + 1), 2}
			g.Complexity = experiment.Floats{float64(len(cg.Nodes)), 3}
		}
		e.Trials = append(e.Trials, t)
	}
	var buf bytes.Buffer
	if err := e.Write(&buf); err != nil {
		return []c15Fail{{"experiment/write-error", err.Error()}}
	}
	fails = append(fails, c15CompareExperiment(&e, buf.Bytes(), nil, "a fresh Experiment")...)
	// ... and into an Experiment object that was used before (same number of trials, other content,
	// statistics already queried): the restored experiment must not depend on what the object held
	used := experiment.Experiment{Id: 99, Name: "used before"}
	for i := range trials {
		alt := []int{(i + 2) % len(c19GenMenu), (i + 3) % len(c19GenMenu), 2}
		used.Trials = append(used.Trials, c19Trial(50+i, alt))
	}
	for i := range used.Trials {
		used.Trials[i].WinnerStatistics()
	}
	_, _, _, _ = used.AvgWinnerStatistics()
	fails = append(fails, c15CompareExperiment(&e, buf.Bytes(), &used, "an Experiment object used before")...)
	return fails
}

// c15CompareExperiment reads data into target (a fresh Experiment if nil) and compares with e.
func c15CompareExperiment(ep *experiment.Experiment, data []byte, target *experiment.Experiment, into string) (fails []c15Fail) {
	e := *ep
	var back experiment.Experiment
	if target != nil {
		back = *target
	}
	var err error
	func() {
		defer func() {
			if r := recover(); r != nil {
				err = fmt.Errorf("panic: %v", r)
			}
		}()
		err = back.Read(bytes.NewReader(data))
	}()
	if err != nil {
		return []c15Fail{{"experiment/read-error", "Experiment.Read into " + into + " failed: " + err.Error()}}
	}
	if back.Id != e.Id || back.Name != e.Name || len(back.Trials) != len(e.Trials) {
		return []c15Fail{{"experiment/header", fmt.Sprintf("experiment (id %d, %q, %d trials) read back as (id %d, %q, %d trials)", e.Id, e.Name, len(e.Trials), back.Id, back.Name, len(back.Trials))}}
	}
	for i := range e.Trials {
		a, b := e.Trials[i], back.Trials[i]
		if a.Id != b.Id || len(a.Generations) != len(b.Generations) {
			return []c15Fail{{"experiment/trial", fmt.Sprintf("trial %d (id %d, %d generations) read back as (id %d, %d generations)", i, a.Id, len(a.Generations), b.Id, len(b.Generations))}}
		}
		for gi := range a.Generations {
			x, y := a.Generations[gi], b.Generations[gi]
			if x.Id != y.Id || x.Solved != y.Solved || x.Diversity != y.Diversity || x.WinnerEvals != y.WinnerEvals || x.WinnerNodes != y.WinnerNodes ||
				x.WinnerGenes != y.WinnerGenes || x.TrialId != y.TrialId || fmt.Sprint(x.Fitness) != fmt.Sprint(y.Fitness) || fmt.Sprint(x.Age) != fmt.Sprint(y.Age) ||
				fmt.Sprint(x.Complexity) != fmt.Sprint(y.Complexity) || !x.Executed.Equal(y.Executed) || x.Duration != y.Duration {
				return []c15Fail{{"experiment/generation", fmt.Sprintf("trial %d generation %d read back differently: %+v vs %+v", i, gi, genSummary(x), genSummary(y))}}
			}
			if y.Champion == nil || y.Champion.Genotype == nil {
				return []c15Fail{{"experiment/champion", fmt.Sprintf("trial %d generation %d: champion missing after reading", i, gi)}}
			}
			if !sameF(x.Champion.Fitness, y.Champion.Fitness) || x.Champion.IsWinner != y.Champion.IsWinner || x.Champion.Generation != y.Champion.Generation || !sameF(x.Champion.Error, y.Champion.Error) {
				return []c15Fail{{"experiment/champion-fields", fmt.Sprintf("trial %d generation %d: champion (fitness %g winner %v generation %d error %g) read back as (%g %v %d %g)", i, gi,
					x.Champion.Fitness, x.Champion.IsWinner, x.Champion.Generation, x.Champion.Error, y.Champion.Fitness, y.Champion.IsWinner, y.Champion.Generation, y.Champion.Error)}}
			}
			if ka, kb := normKey(SpecOf(x.Champion.Genotype)), normKey(SpecOf(y.Champion.Genotype)); ka != kb {
				return []c15Fail{{"experiment/champion-genome", fmt.Sprintf("trial %d generation %d: champion genome differs: %s", i, gi, diffKeys(ka, kb))}}
			}
		}
	}
	// derived statistics
	type stat struct {
		name string
		f    func(e *experiment.Experiment) string
	}
	stats := []stat{
		{"BestFitness", func(e *experiment.Experiment) string { return fmt.Sprint(e.BestFitness()) }},
		{"BestComplexity", func(e *experiment.Experiment) string { return fmt.Sprint(e.BestComplexity()) }},
		{"AvgDiversity", func(e *experiment.Experiment) string { return fmt.Sprint(e.AvgDiversity()) }},
		{"EpochsPerTrial", func(e *experiment.Experiment) string { return fmt.Sprint(e.EpochsPerTrial()) }},
		{"TrialsSolved", func(e *experiment.Experiment) string { return fmt.Sprint(e.TrialsSolved()) }},
		{"SuccessRate", func(e *experiment.Experiment) string { return fmt.Sprint(e.SuccessRate()) }},
		{"AvgWinnerStatistics", func(e *experiment.Experiment) string {
			a, b, c, d := e.AvgWinnerStatistics()
			return fmt.Sprint(a, b, c, d)
		}},
		{"Solved", func(e *experiment.Experiment) string { return fmt.Sprint(e.Solved()) }},
	}
	for _, s := range stats {
		var va, vb string
		func() {
			defer func() {
				if r := recover(); r != nil {
					vb = fmt.Sprintf("panic: %v", r)
				}
			}()
			va = s.f(&e)
			vb = s.f(&back)
		}()
		if va != vb {
			fails = append(fails, c15Fail{"experiment/statistic-" + s.name, fmt.Sprintf("%s is %s before writing and %s after reading into %s", s.name, va, vb, into)})
		}
	}
	return
}

func genSummary(g experiment.Generation) string {
	return fmt.Sprintf("{id %d solved %v div %d winner %d/%d/%d trial %d fit %v age %v cx %v at %s dur %s}", g.Id, g.Solved, g.Diversity, g.WinnerEvals, g.WinnerNodes, g.WinnerGenes, g.TrialId, g.Fitness, g.Age, g.Complexity, g.Executed.Format(time.RFC3339), g.Duration)
}

func runC15(c *Ctx) {
	fam, modular := c15Family(c)
	c.Extra["genomes_in_family"] = len(fam)
	c.Extra["modular_genomes"] = len(modular)
	report := func(f c15Fail, what string, ord int64, params map[string]interface{}) {
		c.ViolateOrd("C15/"+f.clause, ord, f.msg+" ["+what+"]", &Replay{Scenario: "roundtrip", Params: params, Clause: f.msg})
	}
	var trips int64
	parFor(len(fam)+len(modular), func(i int) {
		var g *GenomeSpec
		mod := i >= len(fam)
		if mod {
			g = modular[i-len(fam)]
		} else {
			g = fam[i]
		}
		fails, n := c15Genome(g, mod)
		c.mu.Lock()
		trips += n
		c.mu.Unlock()
		for _, f := range fails {
			report(f, g.Short(), int64(len(g.Genes)*100+len(g.Nodes)), map[string]interface{}{"kind": "genome", "genome": g, "modular": mod})
		}
		c.Distinct(hashString(g.Key()))
	})
	c.AddEval(trips)
	c.Count("genome_round_trips", trips)
	// through files
	fdir := filepath.Join(outRoot, "build", "tmp", fmt.Sprintf("c15-%d", os.Getpid()))
	_ = os.MkdirAll(fdir, 0o755)
	var files int64
	for i, g := range c15BaseGenomes() {
		if len(g.Modules) > 0 {
			continue
		}
		files += 5
		for _, fl := range c15Files(g, fdir, i) {
			report(fl, g.Short(), int64(i), map[string]interface{}{"kind": "file", "genome": g})
		}
	}
	_ = os.RemoveAll(fdir)
	c.AddEval(files)
	c.Count("file_round_trips", files)
	// organisms: fitness x generation
	base := c15BaseGenomes()
	var orgs int64
	for gi, g := range base {
		for _, f := range c15Floats {
			for _, gen := range []int{0, 1, 7} {
				if f < 0 {
					continue
				}
				orgs++
				for _, fl := range c15Organism(g, f, gen) {
					report(fl, fmt.Sprintf("fitness %g generation %d genome %s", f, gen, g.Short()), int64(gi), map[string]interface{}{"kind": "organism", "genome": g, "fitness": f, "generation": gen})
				}
			}
		}
	}
	c.AddEval(orgs)
	c.Count("organism_round_trips", orgs)
	// populations: every multiset of <= 3 genomes from a family of 6 (1..3 traits)
	one := cloneSpec(hbGenome(0, 1, 2))
	one.Traits = one.Traits[:1]
	for i := range one.Genes {
		one.Genes[i].Trait = 1
	}
	for i := range one.Nodes {
		if one.Nodes[i].Trait > 1 {
			one.Nodes[i].Trait = 1
		}
	}
	popFam := []*GenomeSpec{xorSeed(), evolvedSeed(), unsortedSeed(), hbGenome(0, 2, 0), one, c06Corners()[1]}
	var pops int64
	for a := 0; a < len(popFam); a++ {
		for b := a; b <= len(popFam); b++ {
			for d := b; d <= len(popFam); d++ {
				set := []*GenomeSpec{popFam[a]}
				idx := []int{a}
				if b < len(popFam) {
					set = append(set, popFam[b])
					idx = append(idx, b)
				}
				if d < len(popFam) && b < len(popFam) {
					set = append(set, popFam[d])
					idx = append(idx, d)
				}
				pops++
				for _, fl := range c15Population(set) {
					report(fl, fmt.Sprintf("population of family members %v", idx), int64(len(set)*100+a), map[string]interface{}{"kind": "population", "members": idx})
				}
			}
		}
	}
	c.AddEval(pops)
	c.Count("population_round_trips", pops)
	// fast-solver models: the C12 network set with hard-float weights
	sh := c12Shape{NB: 1, NI: 1, NH: 2, NO: 1}
	total := uint64(1) << uint(len(sh.edges()))
	var models int64
	parFor(int(total), func(mi int) {
		for wr := 0; wr < 2; wr++ {
			cs := c12Case{Shape: sh, Mask: uint64(mi), WRot: wr, ActPat: 20 + wr, Input: []float64{1}}
			g, _ := cs.spec()
			if len(g.Genes) == 0 {
				continue
			}
			for i := range g.Genes {
				g.Genes[i].W = c15Floats[(i*5+mi+wr)%len(c15Floats)]
			}
			fails := c15Model(g, 1)
			c.mu.Lock()
			models++
			c.mu.Unlock()
			for _, fl := range fails {
				report(fl, g.Short(), int64(bitsSet(uint64(mi))), map[string]interface{}{"kind": "model", "genome": g})
			}
		}
	})
	for _, en := range []bool{true, false} {
		models++
		for _, fl := range c15Model(modularSeed(en), 2) {
			report(fl, "modular genome", 0, map[string]interface{}{"kind": "model", "genome": modularSeed(en)})
		}
	}
	models += 6
	for _, fl := range c15ModelOrders() {
		report(fl, "three links into a linear output, listed in every order", 0, map[string]interface{}{"kind": "model-orders"})
	}
	c.AddEval(models)
	c.Count("model_round_trips", models)
	// experiments
	types := c19TrialTypes(2)
	if !c.Quick() {
		types = c19TrialTypes(3)
	}
	champs := []*GenomeSpec{xorSeed(), evolvedSeed(), disconnectedSeed(), hbGenome(0, 2, 1), c06Corners()[0]}
	var exps int64
	var shapes [][][]int
	shapes = append(shapes, nil)
	for _, a := range types {
		shapes = append(shapes, [][]int{a})
	}
	for i := 0; i < len(types); i += 3 {
		for j := 1; j < len(types); j += 5 {
			shapes = append(shapes, [][]int{types[i], types[j]})
		}
	}
	for i := 1; i < len(types); i += 11 {
		shapes = append(shapes, [][]int{types[i], types[(i*7)%len(types)], types[(i*3+1)%len(types)]})
	}
	for _, sh := range shapes {
		ok := true
		for _, t := range sh {
			_ = t
		}
		if !ok {
			continue
		}
		exps++
		for _, fl := range c15Experiment(sh, champs) {
			report(fl, fmt.Sprintf("experiment with trials (generation menu indices) %v", sh), int64(len(sh)), map[string]interface{}{"kind": "experiment", "trials": sh})
		}
	}
	c.AddEval(exps)
	c.Count("experiment_round_trips", exps)
	c.Sample(map[string]interface{}{"genome": fam[len(fam)/3].Short(), "encodings": []string{"plain Write -> GenomeReader.Read", "plain Write -> ReadGenome", "YAML"}})
	c.Sample(map[string]interface{}{"floats": c15Floats})
	c.Rule = "genomes: start genomes, corner genomes, two unusual node layouts, each gene weight/mutation number and each trait parameter of four base genomes replaced in turn by every value of a 21-value hard-float alphabet (incl. 1e21/1e-5 where %g changes notation, MaxFloat64, 5e-324), every registered scalar activation type, three trait-reference patterns, all GenomeSpace states to depth 2 (3 thorough) of three families; each through plain Write->Read, plain Write->ReadGenome and YAML (the base genomes also through files read with NewGenomeReaderFromFile under five file names) (modular genomes: YAML only) and compared bit for bit (sign of zero excepted) incl. id and pointer wiring. organisms: MarshalBinary->UnmarshalBinary over fitness alphabet x generation {0,1,7}. populations: every multiset of <= 3 genomes from a family of 6 (1-3 traits), with genome ids that are the positions / all equal / descending with gaps, through Population.Write->ReadPopulation. fast-solver models: all 2^9 feed-forward edge sets over {bias,input,2 hidden,output} with hard-float weights + modular, WriteModel->ReadFMNSModel, outputs of 3 solver modes on 4 inputs bit-equal; plus directly constructed solvers whose connection list is in every order (summation order decides the last bit). organisms are also marshalled a second time after their genotype changed in place / was replaced. experiments: every single-trial shape of <= 2 (3) generations over a 6-record menu plus two- and three-trial combinations, Write->Read, records, champions and 8 derived statistics equal. non-trivial = distinct genomes written"
	c.Assume("a zero weight's sign is not compared; generation records always carry a champion (as FillPopulationStatistics produces); RandSeed, MaxFitnessScore and species back-pointers are not part of the statement")
}

func replayC15(c *Ctx, rp *Replay) (bool, string) {
	kind := paramStr(rp, "kind")
	var g GenomeSpec
	if raw, ok := rp.Params["genome"]; ok {
		js, _ := jsonMarshal(raw)
		_ = jsonUnmarshal(js, &g)
	}
	var fails []c15Fail
	switch kind {
	case "genome":
		mod, _ := rp.Params["modular"].(bool)
		fails, _ = c15Genome(&g, mod)
	case "organism":
		f, _ := rp.Params["fitness"].(float64)
		fails = c15Organism(&g, f, paramInt(rp, "generation"))
	case "model":
		fails = c15Model(&g, 1)
	case "model-orders":
		fails = c15ModelOrders()
	default:
		return false, "re-run the check: " + kind + " cases are deterministic from their parameters"
	}
	if len(fails) > 0 {
		return true, fails[0].msg
	}
	return false, g.Short()
}
