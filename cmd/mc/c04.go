package main

import (
	"encoding/json"
	"fmt"
	"math"

	"github.com/yaricom/goNEAT/v4/neat/genetics"
	"github.com/yaricom/goNEAT/v4/neat/network"
)

// C04 — crossover children inherit genes only as NEAT's alignment rules allow.
//
// E4 x E1: parents are all well-formed non-empty subsets of a master gene list of
// k innovations (which deliberately contains one pair of innovations for the SAME
// link and one recurrent self-loop) x enabled patterns x trait patterns x fitness
// orders x the three methods x every choice sequence of the mate call (complete
// where the tree is small, deviation-bounded around Z/M/H otherwise).

func init() { register("C04", "model_checking", runC04, replayC04) }

type masterGene struct {
	In, Out string // symbolic: B bias, I1 I2 inputs, O O2 outputs, H1 H2 hidden
	Rec     bool
}

var c04Master = []masterGene{
	{"I1", "O", false},  // #1
	{"I2", "H1", false}, // #2
	{"H1", "O", false},  // #3
	{"I1", "O", false},  // #4  same link as #1 (conflict pair)
	{"H1", "O", true},   // #5  the recurrent twin of #3 (same node pair, other recurrence flag: a genome may hold both)
	{"H1", "H1", true},  // #6  recurrent self-loop
	{"B", "O2", false},  // #7  bias link (to the second output where the layout has one)
	{"I2", "H2", false}, // #8
	{"H2", "O", false},  // #9
}

// c04Layouts: node ids per symbol. Layout 0: sensors, output, then hidden nodes (as in the
// shipped start genomes). Layout 1: hidden nodes BEFORE the outputs and a second output (as
// newGenomeRand lays genomes out), so that an output may be touched by no inherited gene.
var c04Layouts = []map[string]int{
	{"B": 1, "I1": 2, "I2": 3, "O": 4, "O2": 4, "H1": 5, "H2": 6},
	{"B": 1, "I1": 2, "I2": 3, "H1": 4, "H2": 5, "O": 6, "O2": 7},
	// layout 2: node ids count from 0, and both parents carry the SAME genome id (ids are per-species baby
	// counters or user-supplied, not identities)
	{"B": 1, "I1": 0, "I2": 2, "O": 3, "O2": 3, "H1": 4, "H2": 5},
}

type c04Case struct {
	MaskA  int    `json:"mask_a"`
	MaskB  int    `json:"mask_b"`
	EnA    int    `json:"en_a"`
	EnB    int    `json:"en_b"`
	Trait  int    `json:"trait"`
	Fit    int    `json:"fit"` // 0: A less fit, 1: tie, 2: A fitter
	Method string `json:"method"`
	Layout int    `json:"layout"`
}

func c04Valid(mask int) bool {
	if mask == 0 {
		return false
	}
	return !(mask&1 != 0 && mask&8 != 0) // #1 and #4 are the same link
}

func c04Parent(id, mask, enPat, traitPat, wOff int) *GenomeSpec {
	return c04ParentL(0, id, mask, enPat, traitPat, wOff)
}

func c04ParentL(layout, id, mask, enPat, traitPat, wOff int) *GenomeSpec {
	L := c04Layouts[layout]
	if layout == 2 {
		id = 7
	}
	act := xorSeed().Nodes[3].Act
	s := &GenomeSpec{ID: id,
		Traits: []TraitSpec{{1, params8(0.1 * float64(wOff+1))}, {2, params8(1.5 + float64(wOff))}}}
	need := map[int]bool{}
	idx := 0
	var cnt int
	for i := range c04Master {
		if mask&(1<<uint(i)) != 0 {
			cnt++
		}
	}
	for i, m := range c04Master {
		if mask&(1<<uint(i)) == 0 {
			continue
		}
		en := true
		switch enPat {
		case 1:
			en = idx != 0
		case 2:
			en = idx != cnt-1
		case 3:
			en = idx%2 == 0
		}
		tr := 1
		switch traitPat {
		case 1:
			tr = 1 + (i+wOff)%2
		case 2:
			tr = 0
		}
		w := hardFloats[(i*3+wOff)%len(hardFloats)]
		s.Genes = append(s.Genes, GeneSpec{In: L[m.In], Out: L[m.Out], Rec: m.Rec, W: w, Innov: int64(i + 1), Mut: hardFloats[(i+wOff+5)%len(hardFloats)], En: en, Trait: tr})
		need[L[m.In]], need[L[m.Out]] = true, true
		idx++
	}
	// nodes in ascending id order: sensors and outputs always, hidden nodes only when a gene touches them
	type nd struct {
		id   int
		role network.NodeNeuronType
	}
	all := []nd{{L["B"], network.BiasNeuron}, {L["I1"], network.InputNeuron}, {L["I2"], network.InputNeuron}, {L["O"], network.OutputNeuron}, {L["O2"], network.OutputNeuron},
		{L["H1"], network.HiddenNeuron}, {L["H2"], network.HiddenNeuron}}
	seen := map[int]bool{}
	for id := 0; id <= 7; id++ {
		for _, n := range all {
			if n.id != id || seen[id] {
				continue
			}
			if n.role == network.HiddenNeuron && !need[id] {
				continue
			}
			seen[id] = true
			a := act
			t := 0
			if n.role == network.BiasNeuron || n.role == network.InputNeuron {
				a = 17 // NullActivation
			} else if n.role == network.HiddenNeuron && traitPat != 2 {
				t = 1 + (id+wOff)%2
			}
			s.Nodes = append(s.Nodes, NodeSpec{id, n.role, a, t})
		}
	}
	return s
}

type c04Bounds struct {
	K     int
	Quick bool
	Prop  string
}

func c04Apply(cs *c04Case, a, b *genetics.Genome) (*genetics.Genome, error) {
	f1, f2 := 1.0, 1.0
	switch cs.Fit {
	case 0:
		f1 = 0.5
	case 2:
		f2 = 0.5
	}
	if cs.Layout == 1 {
		// in the second node layout an unequal pair of fitness values is the closest possible one:
		// 0.3 against the next float64 above it (what 0.1+0.2 evaluates to) - still not a tie
		hi := math.Nextafter(0.3, 1)
		f1, f2 = hi, hi
		switch cs.Fit {
		case 0:
			f1 = 0.3
		case 2:
			f2 = 0.3
		}
	}
	switch cs.Method {
	case "mateMultipoint":
		return a.VMateMultipoint(b, 77, f1, f2)
	case "mateMultipointAvg":
		return a.VMateMultipointAvg(b, 77, f1, f2)
	}
	return a.VMateSinglePoint(b, 77)
}

func popcount(x int) int {
	n := 0
	for ; x != 0; x &= x - 1 {
		n++
	}
	return n
}

func c04RunCase(c *Ctx, prop string, cs *c04Case, oracle func(cs *c04Case, t *gsTransition), onlyPrefix []int, polName string) (execs int64) {
	sa := c04ParentL(cs.Layout, 1, cs.MaskA, cs.EnA, cs.Trait, 0)
	sb := c04ParentL(cs.Layout, 2, cs.MaskB, cs.EnB, cs.Trait, 3)
	matching := popcount(cs.MaskA & cs.MaskB)
	pols := []string{"Z"}
	dev := 99
	switch cs.Method {
	case "mateMultipoint":
		if matching > 3 {
			pols, dev = []string{"Z", "M", "H"}, 3
		}
	case "mateMultipointAvg":
		if matching > 1 {
			pols, dev = []string{"Z", "M", "H"}, 2
		}
	}
	if onlyPrefix != nil {
		pols, dev = []string{polName}, 0
	}
	for _, pn := range pols {
		ex := &Explorer{Policy: parsePolicy(pn), MaxDev: dev, Horizon: 400, Stop: c.Expired}
		ex.Body = func(x *Exec) {
			a, b := sa.Build(), sb.Build()
			child, err := c04Apply(cs, a, b)
			t := &gsTransition{Op: cs.Method, FitOrder: cs.Fit, Before: sa, Partner: sb, PBefore: sb, Result: child, OK: err == nil, Err: err, G: a, x: x, Regime: "none"}
			t.OrigPost, t.PartPost = SpecOf(a), SpecOf(b)
			if child != nil {
				t.After = SpecOf(child)
				x.EndHash = hashString(t.After.Key())
			}
			t.caseParams = cs
			oracle(cs, t)
		}
		ex.OnPanic = func(x *Exec, r interface{}, stack string) {
			t := &gsTransition{Op: cs.Method, FitOrder: cs.Fit, Before: sa, Partner: sb, x: x, Regime: "none", caseParams: cs}
			c04Violate(c, prop, t, "panic", fmt.Sprintf("%s panicked: %v", cs.Method, r))
		}
		if onlyPrefix != nil {
			ex.RunOne(onlyPrefix)
		} else {
			ex.Run()
		}
		execs += ex.Executions
		if ex.Stopped {
			break
		}
	}
	return
}

func c04Violate(c *Ctx, prop string, t *gsTransition, clause, msg string) {
	cs := t.caseParams
	js, _ := json.Marshal(cs)
	params := map[string]interface{}{}
	_ = json.Unmarshal(js, &params)
	var ans []int
	if t.x != nil {
		ans = t.x.Answers()
		params["policy"] = t.x.policy.String()
	}
	trace := fmt.Sprintf("%s(A=%s, B=%s, fitness order %d)", cs.Method, t.Before.Short(), t.Partner.Short(), cs.Fit)
	if t.After != nil {
		trace += " => " + t.After.Short()
	}
	rp := &Replay{Scenario: "mate", Params: params, Answers: ans, Clause: msg, Trace: trace}
	ord := int64(popcount(cs.MaskA)+popcount(cs.MaskB))*100000 + int64(cs.MaskA*256+cs.MaskB)
	c.ViolateOrd(prop+"/"+cs.Method+"/"+clause, ord, fmt.Sprintf("[%s A=%s B=%s fit=%d] %s", cs.Method, t.Before.Short(), t.Partner.Short(), cs.Fit, msg), rp)
}

// c04Enumerate runs the oracle on every case below the bounds.
func c04Enumerate(c *Ctx, bd c04Bounds, oracle func(cs *c04Case, t *gsTransition)) {
	var masks []int
	for m := 1; m < 1<<uint(bd.K); m++ {
		if c04Valid(m) {
			masks = append(masks, m)
		}
	}
	enPats := []int{0, 1, 2, 3}
	traitPats := []int{0, 1, 2}
	if bd.Quick {
		enPats = []int{0, 1, 3}
		traitPats = []int{1, 2}
	}
	// below k = 6 the recurrent self-loop (#6) is outside the alphabet: add the gene lists over
	// {#1, #2, #3, #6} that contain it; pairs that involve one of them run with one enabled / trait pattern
	extra := map[int]bool{}
	if bd.K < 6 && bd.Prop == "C04" {
		for sub := 0; sub < 8; sub++ {
			m := sub | 1<<5
			masks = append(masks, m)
			extra[m] = true
		}
	}
	methods := []string{"mateMultipoint", "mateMultipointAvg", "mateSinglePoint"}
	c.Extra["mate_parent_gene_lists"] = len(masks)
	c.Dynamic = true
	c.Sharded(len(masks), func(ai int) {
		if c.Expired() {
			c.MarkCapped("internal deadline reached before every parent pair was enumerated")
			return
		}
		var execs, cases int64
		for _, mb := range masks {
			enPats, traitPats := enPats, traitPats
			if extra[masks[ai]] || extra[mb] {
				enPats, traitPats = []int{0}, []int{1}
			}
			for _, ea := range enPats {
				for _, eb := range enPats {
					for _, tp := range traitPats {
						for fit := 0; fit < 3; fit++ {
							for _, me := range methods {
								if me == "mateSinglePoint" && fit != 1 {
									continue
								}
								cs := &c04Case{MaskA: masks[ai], MaskB: mb, EnA: ea, EnB: eb, Trait: tp, Fit: fit, Method: me}
								execs += c04RunCase(c, bd.Prop, cs, oracle, nil, "")
								cases++
								if ea == enPats[0] && eb == enPats[len(enPats)-1] {
									// second node layout (hidden nodes before the outputs, two outputs)
									cs2 := *cs
									cs2.Layout = 1
									execs += c04RunCase(c, bd.Prop, &cs2, oracle, nil, "")
									cases++
									// third layout: zero-based node ids, parents with equal genome ids
									cs3 := *cs
									cs3.Layout = 2
									execs += c04RunCase(c, bd.Prop, &cs3, oracle, nil, "")
									cases++
								}
							}
						}
					}
				}
			}
			c.Distinct(uint64(masks[ai])<<32 | uint64(mb))
		}
		c.mu.Lock()
		c.Evaluations += execs
		c.Traces += execs
		c.Transitions += execs
		c.mu.Unlock()
		c.Count("mate_cases", cases)
		c.Count("mate_calls", execs)
		if ai == len(masks)/2 {
			cs := &c04Case{MaskA: masks[ai], MaskB: masks[len(masks)-1], EnA: 1, EnB: 3, Trait: 1, Fit: 2, Method: "mateMultipoint"}
			c.Sample(map[string]interface{}{"case": cs, "A": c04Parent(1, cs.MaskA, cs.EnA, cs.Trait, 0).Short(), "B": c04Parent(2, cs.MaskB, cs.EnB, cs.Trait, 3).Short()})
		}
	})
}

// ---- the C04 oracle ----

func c04Oracle(c *Ctx) func(cs *c04Case, t *gsTransition) {
	return func(cs *c04Case, t *gsTransition) {
		fail := func(clause, msg string) { c04Violate(c, "C04", t, clause, msg) }
		if t.Err != nil {
			fail("error", "crossover returned an error: "+t.Err.Error())
			return
		}
		A, B, ch := t.Before, t.Partner, t.After
		if t.OrigPost.Key() != A.Key() {
			fail("parent-modified", "the first parent was modified: "+diffKeys(A.Key(), t.OrigPost.Key()))
			return
		}
		if t.PartPost.Key() != B.Key() {
			fail("parent-modified", "the second parent was modified: "+diffKeys(B.Key(), t.PartPost.Key()))
			return
		}
		ga, gb := map[int64]GeneSpec{}, map[int64]GeneSpec{}
		for _, g := range A.Genes {
			ga[g.Innov] = g
		}
		for _, g := range B.Genes {
			gb[g.Innov] = g
		}
		multipoint := cs.Method != "mateSinglePoint"
		// which parent may contribute unmatched genes (multipoint methods)
		fitter := 0 // 1: A, 2: B, 0: either but consistently
		switch {
		case cs.Fit == 2:
			fitter = 1
		case cs.Fit == 0:
			fitter = 2
		case len(A.Genes) < len(B.Genes):
			fitter = 1
		case len(B.Genes) < len(A.Genes):
			fitter = 2
		}
		seen := map[int64]bool{}
		fromA, fromB := 0, 0
		touched := map[int]bool{}
		for _, g := range ch.Genes {
			if seen[g.Innov] {
				fail("gene-twice", fmt.Sprintf("innovation %d occurs twice in the child", g.Innov))
				return
			}
			seen[g.Innov] = true
			pa, inA := ga[g.Innov]
			pb, inB := gb[g.Innov]
			if !inA && !inB {
				fail("foreign-gene", fmt.Sprintf("child gene #%d is in neither parent", g.Innov))
				return
			}
			src := pa
			if !inA {
				src = pb
			}
			if g.In != src.In || g.Out != src.Out || g.Rec != src.Rec {
				fail("endpoints", fmt.Sprintf("child gene #%d is %d->%d rec=%v, the parents' gene is %d->%d rec=%v", g.Innov, g.In, g.Out, g.Rec, src.In, src.Out, src.Rec))
				return
			}
			touched[g.In], touched[g.Out] = true, true
			if inA && inB {
				mean := (pa.W + pb.W) / 2
				okW := false
				switch cs.Method {
				case "mateMultipoint":
					okW = sameF(g.W, pa.W) || sameF(g.W, pb.W)
				case "mateMultipointAvg":
					okW = sameF(g.W, mean)
				default:
					okW = sameF(g.W, pa.W) || sameF(g.W, pb.W) || sameF(g.W, mean)
				}
				if !okW {
					fail("weight", fmt.Sprintf("matching gene #%d has weight %g in the child; parents have %g and %g (mean %g)", g.Innov, g.W, pa.W, pb.W, mean))
					return
				}
				if pa.En && pb.En && !g.En {
					fail("enabled-flag", fmt.Sprintf("gene #%d is enabled in both parents but disabled in the child", g.Innov))
					return
				}
			} else {
				if !sameF(g.W, src.W) {
					fail("weight", fmt.Sprintf("gene #%d carried by one parent with weight %g has weight %g in the child", g.Innov, src.W, g.W))
					return
				}
				if g.En != src.En {
					fail("enabled-flag", fmt.Sprintf("gene #%d is carried by one parent only, enabled=%v there, enabled=%v in the child", g.Innov, src.En, g.En))
					return
				}
				if inA {
					fromA++
				} else {
					fromB++
				}
			}
		}
		if multipoint {
			if fitter == 1 && fromB > 0 || fitter == 2 && fromA > 0 || fitter == 0 && fromA > 0 && fromB > 0 {
				fail("unmatched-from-worse-parent", fmt.Sprintf("child holds %d unmatched genes of A and %d of B; only the fitter parent (fewer genes on a tie) may contribute them", fromA, fromB))
				return
			}
			for in := range ga {
				if _, both := gb[in]; both && !seen[in] {
					fail("matching-gene-dropped", fmt.Sprintf("gene #%d is present in both parents but missing in the child", in))
					return
				}
			}
		}
		// nodes: all I/B/O plus exactly the nodes the child's genes touch
		want := map[int]network.NodeNeuronType{}
		for _, n := range A.Nodes {
			if n.Role != network.HiddenNeuron {
				want[n.ID] = n.Role
			}
		}
		for _, n := range B.Nodes {
			if n.Role != network.HiddenNeuron {
				want[n.ID] = n.Role
			}
		}
		for id := range touched {
			if _, ok := want[id]; !ok {
				want[id] = network.HiddenNeuron
			}
		}
		if len(ch.Nodes) != len(want) {
			fail("node-set", fmt.Sprintf("child has %d nodes; all input/bias/output nodes plus the nodes its genes touch are %d", len(ch.Nodes), len(want)))
			return
		}
		for _, n := range ch.Nodes {
			if r, ok := want[n.ID]; !ok || r != n.Role {
				fail("node-set", fmt.Sprintf("child node %d (%s) is neither an I/B/O node of the parents nor touched by a child gene", n.ID, roleLetter(n.Role)))
				return
			}
		}
		// traits: the parents' number, parameters averaged
		if len(ch.Traits) != len(A.Traits) {
			fail("traits", fmt.Sprintf("child has %d traits, parents have %d", len(ch.Traits), len(A.Traits)))
			return
		}
		for i, tr := range ch.Traits {
			for j, p := range tr.Params {
				if !sameF(p, (A.Traits[i].Params[j]+B.Traits[i].Params[j])/2) {
					fail("traits", fmt.Sprintf("trait %d parameter %d is %g, the parents' mean is %g", tr.ID, j, p, (A.Traits[i].Params[j]+B.Traits[i].Params[j])/2))
					return
				}
			}
		}
		c.Count("children_checked", 1)
		if fromA+fromB > 0 {
			c.Count("children_with_unmatched_genes", 1)
		}
	}
}

func sameF(a, b float64) bool { return a == b || (a != a && b != b) }

func runC04(c *Ctx) {
	bd := c04Bounds{K: 5, Quick: true, Prop: "C04"}
	if !c.Quick() {
		bd = c04Bounds{K: 6, Quick: false, Prop: "C04"}
	}
	c.Extra["master_list_k"] = bd.K
	c04Enumerate(c, bd, c04Oracle(c))
	c.States = int64(len(c.distinct))
	c.Rule = fmt.Sprintf("parents = every non-empty well-formed subset of a master list of k=%d innovations over {bias, 2 inputs, output(s), 2 hidden} - in three node layouts: outputs before the hidden nodes; hidden nodes before two outputs; node ids counted from 0 with both parents carrying the same genome id - that contains two innovations for the same link, a forward and a recurrent gene between one node pair and a recurrent self-loop (k >= 6: in the alphabet; below: the gene lists over {#1,#2,#3,#6} containing it are added); all ordered pairs x enabled patterns x trait patterns {mixed, nil, (thorough: uniform)} x fitness orders {<,=,>} (values 0.5 / 1, in the second node layout 0.3 / 0.1+0.2, one unit in the last place apart) x {multipoint, multipoint-avg, single-point} x every choice sequence of the mate call (complete tree when <= 3 (multipoint) / <= 1 (avg) genes match and always for single-point, else all sequences within 3 / 2 deviations of Z, M, H); weights and mutation numbers from the hard-float alphabet. Oracle = the C04 statement clause by clause. states = distinct ordered parent pairs, transitions = mate calls on the real code", bd.K)
	c.Assume("parents share consistent innovation numbering (equal number => equal link); conflicting numbering appears only as two numbers for one link")
	c.Assume("Go toolchain, go build -overlay, the instrumenter and the accessor file are trusted")
}

func c04Replay(c *Ctx, rp *Replay, oracle func(cs *c04Case, t *gsTransition)) (bool, string) {
	js, _ := json.Marshal(rp.Params)
	var cs c04Case
	_ = json.Unmarshal(js, &cs)
	pol := paramStr(rp, "policy")
	if pol == "" {
		pol = "Z"
	}
	ans := rp.Answers
	if ans == nil {
		ans = []int{}
	}
	c04RunCase(c, c.ID, &cs, oracle, ans, pol)
	if c.ViolationCount() > 0 {
		return true, c.violations[0].Msg
	}
	return false, fmt.Sprintf("%s on masks %d,%d", cs.Method, cs.MaskA, cs.MaskB)
}

func replayC04(c *Ctx, rp *Replay) (bool, string) { return c04Replay(c, rp, c04Oracle(c)) }
