package main

// C03 — an innovation number denotes one connection for the life of a population.
//
// E1 over the same multi-epoch runs as C02 with the InnovationLedger attached for
// the whole history; structural-heavy profiles weighted up.

func init() {
	register("C03", "model_checking", runC03, replayEpochs("C03", oLedger))
}

func planC03(c *Ctx) epochPlan {
	seeds := []string{"xor", "evolved", "read", "disc", "rand", "randrec", "hb4"}
	modes := []string{"phase", "whole", "perspecies"}
	fits := []int{0, 1, 2, 5, 6}
	pl := epochPlan{prop: "C03", oracles: oLedger}
	if c.Quick() {
		pl.scenarios = buildScenarios(quickCfgRows, allPolicies, seeds, modes, fits, false)
		pl.maxDev = 1
	} else {
		pl.scenarios = buildScenarios(len(cfgRows), allPolicies, seeds, modes, fits, true)
		pl.maxDev = 1
		pl.deepScenarios = deepScenarios(seeds, modes, fits)
		pl.deepDev = 2
		pl.shards = 16
	}
	return pl
}

func runC03(c *Ctx) {
	runEpochPlan(c, planC03(c))
	finishEpochEvidence(c, "E1 choice-tree exploration of multi-epoch runs (see C02) with an innovation ledger kept over the whole history of each run: equal innovation number => equal (in, out, recurrent); equal node id => equal role; every number / node id first seen in a generation exceeds every one held before; under the sequential executor identical new links carry identical numbers and the generation's record never holds the same innovation twice (phase-wise driving); the record is empty after every epoch; issue counters start at/after the largest numbers of the initial population. states = distinct end-state hashes, transitions = populations produced")
}
