package main

import (
	"fmt"

	"github.com/yaricom/goNEAT/v4/neat/genetics"
	"github.com/yaricom/goNEAT/v4/neat/network"
)

// C03 — an innovation number denotes one connection for the life of a population.
//
// E1 over the same multi-epoch runs as C02 with the InnovationLedger attached for
// the whole history; structural-heavy profiles weighted up.

func init() {
	register("C03", "model_checking", runC03, func(c *Ctx, rp *Replay) (bool, string) {
		if rp.Scenario == "generation" {
			return c03ReplayGeneration(c, rp)
		}
		return replayEpochs("C03", oLedger)(c, rp)
	})
}

func planC03(c *Ctx) epochPlan {
	seeds := []string{"xor", "evolved", "read", "disc", "rand", "randrec", "hb4", "modular"}
	modes := []string{"phase", "whole", "perspecies"}
	fits := []int{0, 1, 2, 5, 6}
	pl := epochPlan{prop: "C03", oracles: oLedger}
	if c.Quick() {
		pl.scenarios = buildScenarios(quickCfgRows, allPolicies, seeds, modes, fits, false)
		pl.maxDev = 1
	} else {
		pl.scenarios = buildScenarios(len(cfgRows), allPolicies, seeds, modes, fits, true)
		pl.maxDev = 1
		pl.deepScenarios = deepScenarios(seeds, modes, fits)
		pl.deepDev = 2
		pl.shards = 16
	}
	return pl
}

func runC03(c *Ctx) {
	c03Generations(c)
	runEpochPlan(c, planC03(c))
	finishEpochEvidence(c, "E1 choice-tree exploration of multi-epoch runs (see C02) with an innovation ledger (connection genes and module genes) kept over the whole history of each run: equal innovation number => equal (in, out, recurrent); equal node id => equal role; every number / node id first seen in a generation exceeds every one held before; under the sequential executor identical new links carry identical numbers and the generation's record never holds the same innovation twice (phase-wise driving); the record is empty after every epoch; issue counters start at/after the largest numbers of the initial population. Plus the generation stage: every sequence of up to L (baby, structural mutator) steps of one sequential generation over a pool of four parents (one link held under two numbers by two parents, a forward/recurrent pair between the same nodes, a disconnected late sensor) with a real Population as the innovation record, all choice sequences within 1 deviation of Z/M/A over the whole generation: identical new links and identical splits of the same gene get identical numbers and node ids, new numbers exceed everything held, no number denotes two links, no record twice. states = distinct end-state hashes, transitions = populations produced + mutator steps")
}

// ---------------------------------------------------------------------------
// generation stage: the structural mutators of ONE sequential generation

// c03Pool: the parents of the generation. Innovation numbers 1..12 and node ids 1..6 are held.
func c03Pool() []*GenomeSpec {
	act := xorSeed().Nodes[3].Act
	nodes := func(extra ...NodeSpec) []NodeSpec {
		n := []NodeSpec{{1, network.BiasNeuron, 17, 1}, {2, network.InputNeuron, 17, 1}, {3, network.InputNeuron, 17, 0}, {4, network.OutputNeuron, act, 1}, {5, network.HiddenNeuron, act, 1}}
		return append(n, extra...)
	}
	tr := []TraitSpec{{1, params8(0.1)}, {2, params8(0.6)}}
	gn := func(in, out int, innov int64, rec bool) GeneSpec {
		return GeneSpec{In: in, Out: out, W: 0.5 * float64(innov), Innov: innov, Mut: 0.5, En: true, Trait: 1, Rec: rec}
	}
	// A and B hold the link 2->4 under two numbers (2 and 7) as the first gene add-node may split
	a := &GenomeSpec{ID: 1, Traits: tr, Nodes: nodes(), Genes: []GeneSpec{gn(1, 4, 1, false), gn(2, 4, 2, false), gn(3, 5, 4, false), gn(5, 4, 5, false)}}
	b := &GenomeSpec{ID: 2, Traits: tr, Nodes: nodes(), Genes: []GeneSpec{gn(1, 4, 1, false), gn(2, 4, 7, false), gn(3, 5, 8, false), gn(5, 4, 9, false)}}
	// C: a forward and a recurrent gene between the same nodes
	cc := &GenomeSpec{ID: 3, Traits: tr, Nodes: nodes(), Genes: []GeneSpec{gn(1, 4, 1, false), gn(5, 4, 5, false), gn(5, 4, 10, true), gn(3, 5, 11, false), gn(4, 5, 12, true)}}
	// D: an unconnected sensor listed after the neurons
	d := &GenomeSpec{ID: 4, Traits: tr, Nodes: nodes(NodeSpec{6, network.InputNeuron, 17, 1}), Genes: []GeneSpec{gn(1, 4, 1, false), gn(2, 4, 2, false), gn(5, 4, 5, false), gn(3, 5, 4, false)}}
	sortGenes := func(g *GenomeSpec) {
		for i := 1; i < len(g.Genes); i++ {
			for j := i; j > 0 && g.Genes[j-1].Innov > g.Genes[j].Innov; j-- {
				g.Genes[j-1], g.Genes[j] = g.Genes[j], g.Genes[j-1]
			}
		}
	}
	sortGenes(d)
	return []*GenomeSpec{a, b, cc, d}
}

var c03Ops = []string{"addNode", "addLink", "connectSensors"}

type c03Step struct {
	Parent int    `json:"parent"`
	Op     string `json:"op"`
}

// c03RunGeneration applies the steps (each to a fresh copy of its parent, as reproduction does) with
// one real Population as the innovation record and returns "" or the first discrepancy.
func c03RunGeneration(steps []c03Step, x *Exec) (clause, msg string) {
	pool := c03Pool()
	opts := gsOptions()
	pop := genetics.VNewEmptyPopulation()
	pop.VSetCounters(12, 6) // the largest innovation number and node id held by the parents
	held := map[int64]linkKey{}
	for _, g := range pool {
		for _, gn := range g.Genes {
			held[gn.Innov] = linkKey{gn.In, gn.Out, gn.Rec}
		}
	}
	const hwI, hwN = int64(12), 6
	freshLink := map[linkKey]int64{}
	type split struct {
		node   int
		n1, n2 int64
	}
	splits := map[int64]split{}
	for si, st := range steps {
		parent := pool[st.Parent]
		g := parent.Build()
		g.Id = 100 + si
		var ok bool
		var err error
		switch st.Op {
		case "addNode":
			ok, err = g.VMutateAddNode(pop, pop, opts)
		case "addLink":
			ok, err = g.VMutateAddLink(pop, 1, opts)
		case "connectSensors":
			ok, err = g.VMutateConnectSensors(pop, opts)
		}
		if err != nil || !ok {
			continue
		}
		after := SpecOf(g)
		had := geneMap(parent)
		var fresh []GeneSpec
		for _, gn := range after.Genes {
			if _, was := had[gn.Innov]; !was {
				fresh = append(fresh, gn)
			}
		}
		where := fmt.Sprintf("step %d (%s on a copy of parent %d)", si+1, st.Op, st.Parent+1)
		for _, gn := range fresh {
			k := linkKey{gn.In, gn.Out, gn.Rec}
			if o, ok := held[gn.Innov]; ok && o != k {
				return "innovation-two-links", fmt.Sprintf("%s: innovation %d denotes %d->%d rec=%v and %d->%d rec=%v", where, gn.Innov, o.In, o.Out, o.Rec, k.In, k.Out, k.Rec)
			}
			if _, ok := held[gn.Innov]; !ok && gn.Innov <= hwI {
				return "innovation-not-fresh", fmt.Sprintf("%s: the new gene %d->%d got innovation %d, not larger than the largest number held before the generation (%d)", where, k.In, k.Out, gn.Innov, hwI)
			}
			held[gn.Innov] = k
		}
		roles := nodeRoles(parent)
		newNode := -1
		for _, n := range after.Nodes {
			if _, was := roles[n.ID]; !was {
				newNode = n.ID
				if n.ID <= hwN {
					return "node-id-not-fresh", fmt.Sprintf("%s: the new node got id %d, not larger than the largest id held before the generation (%d)", where, n.ID, hwN)
				}
			}
		}
		if st.Op == "addNode" {
			var old int64 = -1
			for _, gn := range after.Genes {
				if p, was := had[gn.Innov]; was && p.En && !gn.En {
					old = gn.Innov
				}
			}
			if old < 0 || newNode < 0 || len(fresh) != 2 {
				continue // C05 judges the shape of the mutation
			}
			sp := split{newNode, fresh[0].Innov, fresh[1].Innov}
			if o, ok := splits[old]; ok && o != sp {
				return "same-split-two-numbers", fmt.Sprintf("%s: gene #%d was split twice in one generation: first into node %d with genes #%d, #%d, now into node %d with genes #%d, #%d", where, old, o.node, o.n1, o.n2, sp.node, sp.n1, sp.n2)
			}
			splits[old] = sp
			continue
		}
		for _, gn := range fresh {
			k := linkKey{gn.In, gn.Out, gn.Rec}
			if o, ok := freshLink[k]; ok && o != gn.Innov {
				return "same-innovation-two-numbers", fmt.Sprintf("%s: the new link %d->%d rec=%v arose twice in one generation under numbers %d and %d", where, k.In, k.Out, k.Rec, o, gn.Innov)
			}
			// a link that a parent already holds under an older number may legitimately be invented again by a genome that lacks it
			freshLink[k] = gn.Innov
		}
	}
	// the record of the generation holds no innovation twice
	seen := map[string]bool{}
	for _, in := range pop.VInnovationsRaw() {
		k := fmt.Sprintf("%v|%d|%d|%v|%d", in.VIsNode(), in.InNodeId, in.OutNodeId, in.IsRecurrent, in.OldInnovNum)
		if seen[k] {
			return "record-twice", fmt.Sprintf("the generation's record holds the innovation (node=%v %d->%d rec=%v old=%d) twice", in.VIsNode(), in.InNodeId, in.OutNodeId, in.IsRecurrent, in.OldInnovNum)
		}
		seen[k] = true
	}
	if x != nil {
		h := newFnv()
		for _, in := range pop.VInnovationsRaw() {
			h.i(in.InNodeId)
			h.i(in.OutNodeId)
			h.i(int(in.InnovationNum))
		}
		x.EndHash = uint64(h)
	}
	return "", ""
}

func c03Generations(c *Ctx) {
	L := 3
	if !c.Quick() {
		L = 4
	}
	var firsts []c03Step
	for p := range c03Pool() {
		for _, op := range c03Ops {
			firsts = append(firsts, c03Step{p, op})
		}
	}
	c.Sharded(len(firsts), func(fi int) {
		var seqs [][]c03Step
		var rec func(cur []c03Step)
		rec = func(cur []c03Step) {
			if len(cur) >= 2 {
				seqs = append(seqs, append([]c03Step(nil), cur...))
			}
			if len(cur) == L {
				return
			}
			for _, f := range firsts {
				rec(append(cur, f))
			}
		}
		rec([]c03Step{firsts[fi]})
		var execs, steps int64
		for _, seq := range seqs {
			if c.Expired() {
				c.MarkCapped("generation stage: internal deadline reached before every step sequence was explored")
				break
			}
			for _, pn := range []string{"Z", "M", "A"} {
				seq := seq
				ex := &Explorer{Policy: parsePolicy(pn), MaxDev: 1, Horizon: 3000, Stop: c.Expired}
				report := func(x *Exec, clause, msg string) {
					js, _ := jsonMarshal(seq)
					rp := &Replay{Scenario: "generation", Params: map[string]interface{}{"steps": string(js), "policy": pn}, Answers: x.Answers(), Clause: msg}
					c.ViolateOrd("C03/generation/"+clause, int64(len(seq)*1000+len(x.Points)), fmt.Sprintf("[one sequential generation, steps %s] %s", string(js), msg), rp)
				}
				ex.Body = func(x *Exec) {
					if clause, msg := c03RunGeneration(seq, x); clause != "" {
						report(x, clause, msg)
					}
					c.Distinct(x.EndHash ^ 0xc03)
				}
				ex.OnPanic = func(x *Exec, r interface{}, stack string) {
					report(x, "panic", fmt.Sprintf("panic: %v", r))
				}
				ex.Run()
				execs += ex.Executions
				steps += ex.Executions * int64(len(seq))
			}
		}
		c.mu.Lock()
		c.Evaluations += execs
		c.Traces += execs
		c.Transitions += steps
		c.mu.Unlock()
		c.Count("generation_stage_sequences", int64(len(seqs)))
		c.Count("generation_stage_executions", execs)
	})
}

func c03ReplayGeneration(c *Ctx, rp *Replay) (bool, string) {
	var seq []c03Step
	if err := jsonUnmarshal([]byte(paramStr(rp, "steps")), &seq); err != nil {
		return false, "cannot parse steps: " + err.Error()
	}
	ex := &Explorer{Policy: parsePolicy(paramStr(rp, "policy")), Horizon: 5000}
	var got string
	var pan interface{}
	ex.Body = func(x *Exec) { _, got = c03RunGeneration(seq, x) }
	ex.OnPanic = func(x *Exec, r interface{}, stack string) { pan = r }
	ex.RunOne(rp.Answers)
	if pan != nil {
		return true, fmt.Sprintf("panic: %v", pan)
	}
	if got != "" {
		return true, got
	}
	return false, fmt.Sprintf("generation %v", seq)
}
