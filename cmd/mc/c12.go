package main

import (
	"bytes"
	"fmt"
	"math"

	"github.com/yaricom/goNEAT/v4/neat/genetics"
	neatmath "github.com/yaricom/goNEAT/v4/neat/math"
	"github.com/yaricom/goNEAT/v4/neat/network"
)

// C12 — all solvers compute the feed-forward function of the network.
//
// E4: all DAGs over a small node set (edges sensor->neuron, hidden_i->hidden_j
// for i<j, hidden->output; outputs are sinks) in which every neuron is reachable
// from a sensor, x weight rotations x activation assignments x input vectors,
// each evaluated by 7 solver entry points on fresh instances and compared with a
// Kahn-order reference evaluation.

func init() { register("C12", "exploration", runC12, replayC12) }

type c12Shape struct {
	NB, NI, NH, NO int
	// Rev lists the hidden nodes deepest-first (the k-th hidden node in topological order gets the
	// (NH-1-k)-th hidden position / id), so that a shallow hidden node comes LAST in the node list
	Rev bool
}

type c12Edge struct{ from, to int } // indices into node list

// node order (ascending ids): bias..., inputs..., outputs..., hidden...
func (s c12Shape) n() int { return s.NB + s.NI + s.NO + s.NH }
func (s c12Shape) role(i int) network.NodeNeuronType {
	switch {
	case i < s.NB:
		return network.BiasNeuron
	case i < s.NB+s.NI:
		return network.InputNeuron
	case i < s.NB+s.NI+s.NO:
		return network.OutputNeuron
	}
	return network.HiddenNeuron
}
func (s c12Shape) hidden(k int) int {
	if s.Rev {
		return s.NB + s.NI + s.NO + (s.NH - 1 - k)
	}
	return s.NB + s.NI + s.NO + k
}
func (s c12Shape) output(k int) int { return s.NB + s.NI + k }

func (s c12Shape) edges() []c12Edge {
	var es []c12Edge
	ns := s.NB + s.NI
	for f := 0; f < ns; f++ {
		for k := 0; k < s.NH; k++ {
			es = append(es, c12Edge{f, s.hidden(k)})
		}
		for k := 0; k < s.NO; k++ {
			es = append(es, c12Edge{f, s.output(k)})
		}
	}
	for i := 0; i < s.NH; i++ {
		for j := i + 1; j < s.NH; j++ {
			es = append(es, c12Edge{s.hidden(i), s.hidden(j)})
		}
	}
	for i := 0; i < s.NH; i++ {
		for k := 0; k < s.NO; k++ {
			es = append(es, c12Edge{s.hidden(i), s.output(k)})
		}
	}
	return es
}

var c12Weights = []float64{0.5, -1.5, 0.25, 2}

var c12AllActs = func() []neatmath.NodeActivationType {
	var a []neatmath.NodeActivationType
	for _, s := range c18Scalars {
		a = append(a, s.code)
	}
	return a
}()

// activation pattern p: p < 20 -> uniform type p; 20.. -> mixed rotations
func c12Act(p, neuronIdx int) neatmath.NodeActivationType {
	if p < len(c12AllActs) {
		return c12AllActs[p]
	}
	mixed := [][]neatmath.NodeActivationType{
		{neatmath.SigmoidSteepenedActivation, neatmath.TanhActivation, neatmath.LinearActivation, neatmath.GaussianActivation},
		{neatmath.LinearActivation, neatmath.SigmoidPlainActivation, neatmath.SineActivation, neatmath.LinearClippedActivation},
		{neatmath.SigmoidBipolarActivation, neatmath.LinearAbsActivation, neatmath.SigmoidApproximationActivation, neatmath.LinearActivation},
	}
	m := mixed[(p-len(c12AllActs))%len(mixed)]
	return m[neuronIdx%len(m)]
}

func isDiscontinuous(t neatmath.NodeActivationType) bool {
	return t == neatmath.StepActivation || t == neatmath.SignActivation
}

func preservesExactness(t neatmath.NodeActivationType) bool {
	switch t {
	case neatmath.LinearActivation, neatmath.LinearAbsActivation, neatmath.LinearClippedActivation, neatmath.NullActivation,
		neatmath.StepActivation, neatmath.SignActivation:
		return true
	}
	return false
}

type c12Case struct {
	Shape  c12Shape
	Mask   uint64
	WRot   int
	ActPat int
	Input  []float64
}

func (cs c12Case) spec() (*GenomeSpec, []c12Edge) {
	s := cs.Shape
	g := &GenomeSpec{ID: 1, Traits: []TraitSpec{{1, params8(0.1)}}}
	neuron := 0
	for i := 0; i < s.n(); i++ {
		r := s.role(i)
		act := neatmath.NullActivation
		if r == network.OutputNeuron || r == network.HiddenNeuron {
			act = c12Act(cs.ActPat, neuron)
			neuron++
		}
		g.Nodes = append(g.Nodes, NodeSpec{ID: i + 1, Role: r, Act: act, Trait: 1})
	}
	var used []c12Edge
	for ei, e := range s.edges() {
		if cs.Mask&(1<<uint(ei)) == 0 {
			continue
		}
		w := c12Weights[(ei+cs.WRot)%len(c12Weights)]
		g.Genes = append(g.Genes, GeneSpec{In: e.from + 1, Out: e.to + 1, W: w, Innov: int64(ei + 1), Mut: w, En: true, Trait: 1})
		used = append(used, e)
	}
	return g, used
}

// c12Reference evaluates the network in topological order. Returns outputs,
// the longest sensor->output path, ok=false if some neuron is unreachable from a
// sensor (case excluded), skip=true if a discontinuous neuron sits within
// rounding distance of its jump.
func c12Reference(cs c12Case, g *GenomeSpec) (outs []float64, depth int, ok, skip bool) {
	s := cs.Shape
	n := s.n()
	val := make([]float64, n)
	exact := make([]bool, n)
	dep := make([]int, n)
	reach := make([]bool, n)
	in := 0
	for i := 0; i < n; i++ {
		switch s.role(i) {
		case network.BiasNeuron:
			val[i], exact[i], reach[i] = 1, true, true
		case network.InputNeuron:
			val[i], exact[i], reach[i] = cs.Input[in], true, true
			in++
		}
	}
	// topological order: hidden in index order (edges only i<j), then outputs
	order := []int{}
	for k := 0; k < s.NH; k++ {
		order = append(order, s.hidden(k))
	}
	for k := 0; k < s.NO; k++ {
		order = append(order, s.output(k))
	}
	for _, t := range order {
		sum := 0.0
		allExact := true
		any := false
		for _, gn := range g.Genes {
			if gn.Out-1 != t {
				continue
			}
			f := gn.In - 1
			if !reach[f] {
				return nil, 0, false, false
			}
			any = true
			sum += gn.W * val[f]
			allExact = allExact && exact[f]
			if dep[f]+1 > dep[t] {
				dep[t] = dep[f] + 1
			}
		}
		if !any {
			return nil, 0, false, false
		}
		reach[t] = true
		act := g.Nodes[t].Act
		if isDiscontinuous(act) && !allExact && math.Abs(sum) < 1e-9 {
			skip = true
		}
		v, err := neatmath.NodeActivators.ActivateByType(sum, nil, act)
		if err != nil {
			panic(err)
		}
		val[t] = v
		exact[t] = allExact && preservesExactness(act)
	}
	for k := 0; k < s.NO; k++ {
		outs = append(outs, val[s.output(k)])
		if dep[s.output(k)] > depth {
			depth = dep[s.output(k)]
		}
	}
	return outs, depth, true, skip
}

var c12Solvers = []string{"Network.ForwardSteps(D)", "Network.ForwardSteps(D+2)", "Network.RecursiveSteps", "Fast.ForwardSteps(D)", "Fast.ForwardSteps(D+2)", "Fast.RecursiveSteps", "Fast.Relax(D+3)"}

// c12Permuted rebuilds the network through the public constructor with the outputs listed in
// REVERSE order (NewNetwork takes the outputs as its own list, independent of the node list).
func c12Permuted(net *network.Network) *network.Network {
	outs := make([]*network.NNode, len(net.Outputs))
	for i, o := range net.Outputs {
		outs[len(outs)-1-i] = o
	}
	return network.NewNetwork(net.VInputs(), outs, net.BaseNodes(), net.Id)
}

func c12RunSolver(si int, gen *genetics.Genome, input []float64, depth int) (outs []float64, err error) {
	return c12RunSolverP(si, gen, input, depth, false)
}

func c12RunSolverP(si int, gen *genetics.Genome, input []float64, depth int, permute bool) (outs []float64, err error) {
	defer func() {
		if r := recover(); r != nil {
			err = fmt.Errorf("panic: %v", r)
		}
	}()
	net, err := gen.Genesis(1)
	if err != nil {
		return nil, err
	}
	if permute {
		net = c12Permuted(net)
	}
	var solver network.Solver = net
	if si >= 3 {
		if solver, err = net.FastNetworkSolver(); err != nil {
			return nil, err
		}
	}
	if err = solver.LoadSensors(input); err != nil {
		return nil, err
	}
	var res bool
	switch si {
	case 0, 3:
		res, err = solver.ForwardSteps(depth)
	case 1, 4:
		res, err = solver.ForwardSteps(depth + 2)
	case 2, 5:
		res, err = solver.RecursiveSteps()
	case 6:
		_, err = solver.Relax(depth+3, 5e-324)
		res = true
	}
	if err != nil {
		return nil, err
	}
	if !res {
		return nil, fmt.Errorf("solver reported failure")
	}
	return solver.ReadOutputs(), nil
}

// c12FastVariant obtains the fast solver another way - how 1: the derived solver written with WriteModel
// and read back with ReadFMNSModel; how 2: constructed directly through NewFastModularNetworkSolver
// with the bias links as ordinary connections - flushes it first (a solver that is reused is flushed
// before every evaluation) and evaluates one input vector.
func c12FastVariant(how, si int, sp *GenomeSpec, input []float64, depth int) (outs []float64, err error) {
	defer func() {
		if r := recover(); r != nil {
			err = fmt.Errorf("panic: %v", r)
		}
	}()
	var solver network.Solver
	switch how {
	case 1:
		net, err := sp.Build().Genesis(1)
		if err != nil {
			return nil, err
		}
		fs, err := net.FastNetworkSolver()
		if err != nil {
			return nil, err
		}
		var buf bytes.Buffer
		if err = fs.(*network.FastModularNetworkSolver).WriteModel(&buf); err != nil {
			return nil, err
		}
		if solver, err = network.ReadFMNSModel(bytes.NewReader(buf.Bytes())); err != nil {
			return nil, err
		}
	case 2:
		idx := map[int]int{}
		var acts []neatmath.NodeActivationType
		counts := map[network.NodeNeuronType]int{}
		for _, role := range []network.NodeNeuronType{network.BiasNeuron, network.InputNeuron, network.OutputNeuron, network.HiddenNeuron} {
			for _, n := range sp.Nodes {
				if n.Role == role {
					idx[n.ID] = len(acts)
					acts = append(acts, n.Act)
					counts[role]++
				}
			}
		}
		var conns []*network.FastNetworkLink
		for _, g := range sp.Genes {
			if g.En {
				conns = append(conns, &network.FastNetworkLink{SourceIndex: idx[g.In], TargetIndex: idx[g.Out], Weight: g.W})
			}
		}
		solver = network.NewFastModularNetworkSolver(counts[network.BiasNeuron], counts[network.InputNeuron], counts[network.OutputNeuron], len(acts), acts, conns, make([]float64, len(acts)), nil)
	}
	if _, err = solver.Flush(); err != nil {
		return nil, err
	}
	if err = solver.LoadSensors(input); err != nil {
		return nil, err
	}
	res := true
	switch si {
	case 3:
		res, err = solver.ForwardSteps(depth)
	case 5:
		res, err = solver.RecursiveSteps()
	case 6:
		_, err = solver.Relax(depth+3, 5e-324)
	}
	if err != nil {
		return nil, err
	}
	if !res {
		return nil, fmt.Errorf("solver reported failure")
	}
	return solver.ReadOutputs(), nil
}

// c12FastAfterUse: ONE derived fast solver is used through entry point `first` on another input vector,
// flushed, and then evaluated through entry point `second`: a flushed solver computes the function again
// whatever it was used for before.
func c12FastAfterUse(first, second int, sp *GenomeSpec, input []float64, depth int) (outs []float64, err error) {
	defer func() {
		if r := recover(); r != nil {
			err = fmt.Errorf("panic: %v", r)
		}
	}()
	net, err := sp.Build().Genesis(1)
	if err != nil {
		return nil, err
	}
	solver, err := net.FastNetworkSolver()
	if err != nil {
		return nil, err
	}
	run := func(si int) (bool, error) {
		switch si {
		case 3:
			return solver.ForwardSteps(depth)
		case 5:
			return solver.RecursiveSteps()
		}
		_, e := solver.Relax(depth+3, 5e-324)
		return true, e
	}
	other := make([]float64, len(input))
	for i := range other {
		other[i] = 1.5 - float64(i)
	}
	if err = solver.LoadSensors(other); err != nil {
		return nil, err
	}
	if _, err = run(first); err != nil {
		return nil, err
	}
	if _, err = solver.Flush(); err != nil {
		return nil, err
	}
	if err = solver.LoadSensors(input); err != nil {
		return nil, err
	}
	res, err := run(second)
	if err != nil {
		return nil, err
	}
	if !res {
		return nil, fmt.Errorf("solver reported failure")
	}
	return solver.ReadOutputs(), nil
}

// c12TwoHandles: TWO solvers obtained from ONE network are used interleaved on different input vectors -
// the first is loaded with `input`, then a second fast solver is derived from the same network, loaded with
// another vector and run, and only then the first is run. first == 0: the first handle is the network itself
// (standard solver); otherwise a derived fast solver run through entry point `first`.
func c12TwoHandles(first int, sp *GenomeSpec, input []float64, depth int) (outs []float64, err error) {
	defer func() {
		if r := recover(); r != nil {
			err = fmt.Errorf("panic: %v", r)
		}
	}()
	net, err := sp.Build().Genesis(1)
	if err != nil {
		return nil, err
	}
	var a network.Solver = net
	if first != 0 {
		if a, err = net.FastNetworkSolver(); err != nil {
			return nil, err
		}
	}
	if err = a.LoadSensors(input); err != nil {
		return nil, err
	}
	b, err := net.FastNetworkSolver()
	if err != nil {
		return nil, err
	}
	other := make([]float64, len(input))
	for i := range other {
		other[i] = 1.5 - float64(i)
	}
	if err = b.LoadSensors(other); err != nil {
		return nil, err
	}
	if _, err = b.ForwardSteps(depth); err != nil {
		return nil, err
	}
	res := true
	switch first {
	case 0, 3:
		res, err = a.ForwardSteps(depth)
	case 5:
		res, err = a.RecursiveSteps()
	case 6:
		_, err = a.Relax(depth+3, 5e-324)
	}
	if err != nil {
		return nil, err
	}
	if !res {
		return nil, fmt.Errorf("solver reported failure")
	}
	return a.ReadOutputs(), nil
}

// c12AfterDepthQueries: the standard solver's RecursiveSteps takes its number of steps from the network's depth;
// depth queries made earlier on the same network (capped ones that hit their cap included) must not change it.
func c12AfterDepthQueries(sp *GenomeSpec, input []float64) (outs []float64, err error) {
	defer func() {
		if r := recover(); r != nil {
			err = fmt.Errorf("panic: %v", r)
		}
	}()
	net, err := sp.Build().Genesis(1)
	if err != nil {
		return nil, err
	}
	for _, cap := range []int{1, 2, 0, 1} {
		_, _ = net.MaxActivationDepthWithCap(cap)
	}
	if err = net.LoadSensors(input); err != nil {
		return nil, err
	}
	res, err := net.RecursiveSteps()
	if err != nil {
		return nil, err
	}
	if !res {
		return nil, fmt.Errorf("solver reported failure")
	}
	return net.ReadOutputs(), nil
}

var c12HowNames = []string{"", " [restored from its written model, flushed before use]", " [constructed directly, bias links as connections, flushed before use]"}

func c12Eval(cs c12Case) (fails [][2]string, excluded, skipped bool, depth int) {
	g, _ := cs.spec()
	if len(g.Genes) == 0 {
		return nil, true, false, 0
	}
	want, depth, ok, skip := c12Reference(cs, g)
	if !ok {
		return nil, true, false, 0
	}
	if skip {
		return nil, false, true, depth
	}
	gen := g.Build()
	if cs.Shape.NO > 1 {
		// the same network with its outputs listed in reverse order: output i of every solver is the
		// i-th node of the network's output list
		for si, name := range c12Solvers {
			got, err := c12RunSolverP(si, gen, cs.Input, depth, true)
			if err != nil {
				fails = append(fails, [2]string{name + "/permuted-outputs-error", fmt.Sprintf("%s failed on the network with reversed output list: %v", name, err)})
				continue
			}
			for i := range want {
				w := want[len(want)-1-i]
				if i >= len(got) || (!relClose(got[i], w, 1e-11) && math.Abs(got[i]-w) > 1e-13) {
					fails = append(fails, [2]string{name + "/permuted-outputs", fmt.Sprintf("%s on the network whose output list is reversed: output %d = %v, topological evaluation of that output node gives %.17g", name, i, got, w)})
					break
				}
			}
		}
	}
	for si, name := range c12Solvers {
		got, err := c12RunSolver(si, gen, cs.Input, depth)
		if err != nil {
			fails = append(fails, [2]string{name + "/error", fmt.Sprintf("%s failed: %v", name, err)})
			continue
		}
		if len(got) != len(want) {
			fails = append(fails, [2]string{name + "/arity", fmt.Sprintf("%s returned %d outputs, want %d", name, len(got), len(want))})
			continue
		}
		for i := range want {
			if !relClose(got[i], want[i], 1e-11) && math.Abs(got[i]-want[i]) > 1e-13 {
				fails = append(fails, [2]string{name + "/value", fmt.Sprintf("%s output %d = %.17g, topological evaluation gives %.17g", name, i, got[i], want[i])})
				break
			}
		}
	}
	for _, pr := range [][2]int{{5, 3}, {3, 5}, {6, 3}, {5, 6}} {
		name := c12Solvers[pr[1]] + " [same solver used through " + c12Solvers[pr[0]] + " on another input and flushed before]"
		got, err := c12FastAfterUse(pr[0], pr[1], g, cs.Input, depth)
		if err != nil {
			fails = append(fails, [2]string{name + "/error", fmt.Sprintf("%s failed: %v", name, err)})
			continue
		}
		for i := range want {
			if i >= len(got) || (!relClose(got[i], want[i], 1e-11) && math.Abs(got[i]-want[i]) > 1e-13) {
				fails = append(fails, [2]string{name + "/value", fmt.Sprintf("%s output %d = %v, topological evaluation gives %.17g", name, i, got, want[i])})
				break
			}
		}
	}
	{
		name := "Network.RecursiveSteps [after depth queries with caps 1, 2, none, 1 on the same network]"
		got, err := c12AfterDepthQueries(g, cs.Input)
		if err != nil {
			fails = append(fails, [2]string{name + "/error", fmt.Sprintf("%s failed: %v", name, err)})
		} else {
			for i := range want {
				if i >= len(got) || (!relClose(got[i], want[i], 1e-11) && math.Abs(got[i]-want[i]) > 1e-13) {
					fails = append(fails, [2]string{name + "/value", fmt.Sprintf("%s output %d = %v, topological evaluation gives %.17g", name, i, got, want[i])})
					break
				}
			}
		}
	}
	for _, first := range []int{0, 3, 5, 6} {
		name := c12Solvers[first] + " [a second fast solver derived from the same network was loaded with another vector and run in between]"
		got, err := c12TwoHandles(first, g, cs.Input, depth)
		if err != nil {
			fails = append(fails, [2]string{name + "/error", fmt.Sprintf("%s failed: %v", name, err)})
			continue
		}
		for i := range want {
			if i >= len(got) || (!relClose(got[i], want[i], 1e-11) && math.Abs(got[i]-want[i]) > 1e-13) {
				fails = append(fails, [2]string{name + "/value", fmt.Sprintf("%s output %d = %v, topological evaluation gives %.17g", name, i, got, want[i])})
				break
			}
		}
	}
	if len(g.Modules) == 0 {
		for how := 1; how <= 2; how++ {
			for _, si := range []int{3, 5, 6} {
				name := c12Solvers[si] + c12HowNames[how]
				got, err := c12FastVariant(how, si, g, cs.Input, depth)
				if err != nil {
					fails = append(fails, [2]string{name + "/error", fmt.Sprintf("%s failed: %v", name, err)})
					continue
				}
				if len(got) != len(want) {
					fails = append(fails, [2]string{name + "/arity", fmt.Sprintf("%s returned %d outputs, want %d", name, len(got), len(want))})
					continue
				}
				for i := range want {
					if !relClose(got[i], want[i], 1e-11) && math.Abs(got[i]-want[i]) > 1e-13 {
						fails = append(fails, [2]string{name + "/value", fmt.Sprintf("%s output %d = %.17g, topological evaluation gives %.17g", name, i, got[i], want[i])})
						break
					}
				}
			}
		}
	}
	return fails, false, false, depth
}

// c12EvalReuse evaluates a SEQUENCE of input vectors on ONE instance per solver entry
// point without flushing in between: in a feed-forward network, propagating for at least
// the longest path overwrites every neuron, so each result must again be the function of
// the vector just loaded.
func c12EvalReuse(cs c12Case, inputs [][]float64) (fails [][2]string, done bool) {
	g, _ := cs.spec()
	if len(g.Genes) == 0 {
		return nil, false
	}
	var wants [][]float64
	depth := 0
	for _, in := range inputs {
		c1 := cs
		c1.Input = in
		w, d, ok, skip := c12Reference(c1, g)
		if !ok || skip {
			return nil, false
		}
		wants = append(wants, w)
		depth = d
	}
	gen := g.Build()
	for si, name := range c12Solvers {
		err := func() (err error) {
			defer func() {
				if r := recover(); r != nil {
					err = fmt.Errorf("panic: %v", r)
				}
			}()
			net, err := gen.Genesis(1)
			if err != nil {
				return err
			}
			var solver network.Solver = net
			if si >= 3 {
				if solver, err = net.FastNetworkSolver(); err != nil {
					return err
				}
			}
			for k, in := range inputs {
				if err = solver.LoadSensors(in); err != nil {
					return err
				}
				switch si {
				case 0, 3:
					_, err = solver.ForwardSteps(depth)
				case 1, 4:
					_, err = solver.ForwardSteps(depth + 2)
				case 2, 5:
					_, err = solver.RecursiveSteps()
				case 6:
					_, err = solver.Relax(depth+3, 5e-324)
				}
				if err != nil {
					return err
				}
				got := solver.ReadOutputs()
				for i := range wants[k] {
					if i >= len(got) || (!relClose(got[i], wants[k][i], 1e-11) && math.Abs(got[i]-wants[k][i]) > 1e-13) {
						gv := math.NaN()
						if i < len(got) {
							gv = got[i]
						}
						fails = append(fails, [2]string{name + "/reuse-value", fmt.Sprintf("%s on a reused instance (no flush): after loading vector #%d %v output %d = %.17g, topological evaluation gives %.17g (sequence %v)", name, k, in, i, gv, wants[k][i], inputs)})
						return nil
					}
				}
			}
			return nil
		}()
		if err != nil {
			fails = append(fails, [2]string{name + "/reuse-error", fmt.Sprintf("%s failed on a reused instance: %v", name, err)})
		}
	}
	return fails, true
}

func (cs c12Case) describe() string {
	g, _ := cs.spec()
	return fmt.Sprintf("shape(bias=%d in=%d hidden=%d out=%d) %s acts=%v input=%v", cs.Shape.NB, cs.Shape.NI, cs.Shape.NH, cs.Shape.NO, g.Short(), func() []int {
		var a []int
		for _, n := range g.Nodes {
			if n.Role == network.HiddenNeuron || n.Role == network.OutputNeuron {
				a = append(a, int(n.Act))
			}
		}
		return a
	}(), cs.Input)
}

type c12Plan struct {
	shape  c12Shape
	wrots  []int
	acts   []int
	inputs [][]float64
}

func c12Inputs(ni int, full bool) [][]float64 {
	vals := []float64{0, 1, -0.5, 2}
	if ni == 1 {
		return [][]float64{{0}, {1}, {-0.5}, {2}}
	}
	var res [][]float64
	for _, a := range vals {
		for _, b := range vals {
			if full || (a != b) || a == 1 {
				res = append(res, []float64{a, b})
			}
		}
	}
	return res
}

func seqInts(n int) []int {
	r := make([]int, n)
	for i := range r {
		r[i] = i
	}
	return r
}

// ---------------------------------------------------------------------------
// deep networks: every chain length up to a bound
//
// bias, input, N hidden neurons in a chain, output; the input also feeds the middle of the chain (skip link), the bias
// feeds every fifth neuron and the output; activations alternate between steepened sigmoid, tanh and linear; the node
// list in signal order or reversed. Reference: one pass in chain order.

func c12LongBuild(n int, reversed bool) (*network.Network, []float64) {
	bias, in, out := network.NewNNode(1, network.BiasNeuron), network.NewNNode(2, network.InputNeuron), network.NewNNode(3, network.OutputNeuron)
	acts := []neatmath.NodeActivationType{neatmath.SigmoidSteepenedActivation, neatmath.TanhActivation, neatmath.LinearActivation}
	h := make([]*network.NNode, n)
	wts := []float64{0.5, -1.5, 0.25, 2}
	type lk struct {
		from int // -2 bias, -1 input, k >= 0 hidden k
		w    float64
	}
	incoming := make([][]lk, n+1) // index n = output
	for i := 0; i < n; i++ {
		h[i] = network.NewNNode(4+i, network.HiddenNeuron)
		h[i].ActivationType = acts[i%3]
		incoming[i] = append(incoming[i], lk{i - 1, wts[i%4]})
		if i == n/2 && i > 0 {
			incoming[i] = append(incoming[i], lk{-1, 0.75})
		}
		if i%5 == 4 {
			incoming[i] = append(incoming[i], lk{-2, -0.5})
		}
	}
	incoming[n] = []lk{{n - 1, 1.25}, {-2, 0.3}}
	node := func(k int) *network.NNode {
		switch {
		case k == -2:
			return bias
		case k == -1:
			return in
		}
		return h[k]
	}
	for i := 0; i <= n; i++ {
		t := out
		if i < n {
			t = h[i]
		}
		for _, l := range incoming[i] {
			t.ConnectFrom(node(l.from), l.w)
		}
	}
	all := []*network.NNode{bias, in, out}
	if reversed {
		for i := n - 1; i >= 0; i-- {
			all = append(all, h[i])
		}
	} else {
		all = append(all, h...)
	}
	// reference values for the two inputs used
	var wants []float64
	for _, x := range []float64{0.6, -1.1} {
		val := make([]float64, n)
		get := func(k int) float64 {
			switch {
			case k == -2:
				return 1
			case k == -1:
				return x
			}
			return val[k]
		}
		for i := 0; i < n; i++ {
			sum := 0.0
			for _, l := range incoming[i] {
				sum += l.w * get(l.from)
			}
			val[i], _ = neatmath.NodeActivators.ActivateByType(sum, nil, acts[i%3])
		}
		sum := 0.0
		for _, l := range incoming[n] {
			sum += l.w * get(l.from)
		}
		o, _ := neatmath.NodeActivators.ActivateByType(sum, nil, out.ActivationType)
		wants = append(wants, o)
	}
	return network.NewNetwork([]*network.NNode{in, bias}, []*network.NNode{out}, all, 0), wants
}

// c12LongEval: the five entry points on fresh instances, both inputs one after the other on the same instance.
func c12LongEval(n int, reversed bool) (fails []string, evals int64) {
	for si, name := range []string{"Network.ForwardSteps(D)", "Network.RecursiveSteps", "Fast.ForwardSteps(D)", "Fast.RecursiveSteps", "Fast.Relax"} {
		msg := func() (msg string) {
			defer func() {
				if r := recover(); r != nil {
					msg = fmt.Sprintf("%s panicked: %v", name, r)
				}
			}()
			net, wants := c12LongBuild(n, reversed)
			var solver network.Solver = net
			if si >= 2 {
				fs, err := net.FastNetworkSolver()
				if err != nil {
					return fmt.Sprintf("%s: %v", name, err)
				}
				solver = fs
			}
			depth := n + 1
			for k, x := range []float64{0.6, -1.1} {
				if err := solver.LoadSensors([]float64{x}); err != nil {
					return fmt.Sprintf("%s: load failed: %v", name, err)
				}
				var err error
				switch si {
				case 0, 2:
					_, err = solver.ForwardSteps(depth)
				case 1, 3:
					_, err = solver.RecursiveSteps()
				case 4:
					_, err = solver.Relax(depth+3, 5e-324)
				}
				if err != nil {
					return fmt.Sprintf("%s failed: %v", name, err)
				}
				evals++
				got := solver.ReadOutputs()
				if len(got) != 1 || (!relClose(got[0], wants[k], 1e-11) && math.Abs(got[0]-wants[k]) > 1e-13) {
					return fmt.Sprintf("%s, input %v (vector #%d on the instance): output %v, evaluating each neuron once in chain order gives %.17g", name, x, k, got, wants[k])
				}
			}
			return ""
		}()
		if msg != "" {
			fails = append(fails, msg)
		}
	}
	return fails, evals
}

func c12Long(c *Ctx) {
	maxLong := 80
	if !c.Quick() {
		maxLong = 400
	}
	parFor(maxLong, func(i int) {
		n := i + 1
		for _, rev := range []bool{false, true} {
			fails, ev := c12LongEval(n, rev)
			c.AddEval(ev)
			for _, f := range fails {
				c.ViolateOrd("C12/deep-chain", int64(1)<<40|int64(n), fmt.Sprintf("%s on the chain network of %d hidden neurons (node list reversed: %v)", f, n, rev),
					&Replay{Scenario: "long", Params: map[string]interface{}{"n": n, "reversed": rev}})
			}
		}
		c.Distinct(hashString(fmt.Sprint("c12long", n)))
	})
	c.Rule += fmt.Sprintf("; DEEP NETWORKS: for every N = 1..%d the chain bias/input -> N hidden neurons -> output with a skip link from the input into the middle, bias links into every fifth neuron and the output, activations alternating steepened sigmoid / tanh / linear, node list in signal and in reverse order: five entry points, two input vectors one after the other on the instance, vs one pass in chain order", maxLong)
}

func runC12(c *Ctx) {
	allActs := seqInts(len(c12AllActs) + 3)
	fewActs := []int{3, 13, 10, 4, 19, 17, 20, 21, 22} // steepened sigmoid, linear, tanh, approx sigmoid, step, sign, 3 mixed
	plans := []c12Plan{{c12Shape{NB: 1, NI: 1, NH: 2, NO: 1}, []int{0, 1, 2, 3}, allActs, c12Inputs(1, true)},
		{c12Shape{NB: 2, NI: 1, NH: 1, NO: 1}, []int{0, 1}, fewActs, c12Inputs(1, true)},
		{c12Shape{NB: 0, NI: 1, NH: 2, NO: 1}, []int{0, 2}, fewActs, c12Inputs(1, true)},
		{c12Shape{NB: 1, NI: 2, NH: 2, NO: 1}, []int{0, 3}, fewActs, c12Inputs(2, false)},
		{c12Shape{NB: 1, NI: 1, NH: 2, NO: 2}, []int{1}, fewActs, c12Inputs(1, true)},
		{c12Shape{NB: 1, NI: 1, NH: 2, NO: 1, Rev: true}, []int{0, 1}, fewActs, c12Inputs(1, true)},
		{c12Shape{NB: 0, NI: 1, NH: 3, NO: 1, Rev: true}, []int{2}, []int{3, 13, 21}, c12Inputs(1, true)}}
	if !c.Quick() {
		plans = append(plans,
			c12Plan{c12Shape{NB: 0, NI: 1, NH: 2, NO: 1}, []int{0, 1, 2, 3}, allActs, c12Inputs(1, true)},
			c12Plan{c12Shape{NB: 1, NI: 2, NH: 2, NO: 1}, []int{0, 1, 2, 3}, allActs, c12Inputs(2, true)},
			c12Plan{c12Shape{NB: 1, NI: 1, NH: 3, NO: 1}, []int{0, 1}, allActs, c12Inputs(1, true)},
			c12Plan{c12Shape{NB: 1, NI: 1, NH: 2, NO: 2}, []int{0, 1}, allActs, c12Inputs(1, true)},
			c12Plan{c12Shape{NB: 2, NI: 1, NH: 2, NO: 1}, []int{0, 1}, fewActs, c12Inputs(1, true)},
			c12Plan{c12Shape{NB: 1, NI: 2, NH: 2, NO: 2}, []int{0, 3}, fewActs, c12Inputs(2, false)},
			c12Plan{c12Shape{NB: 0, NI: 2, NH: 2, NO: 2}, []int{1}, fewActs, c12Inputs(2, false)},
		)
	}
	desc := ""
	for _, p := range plans {
		desc += fmt.Sprintf("(bias=%d,in=%d,hidden=%d,out=%d%s: 2^%d edge sets x %d weight rotations x %d activation patterns x %d inputs) ", p.shape.NB, p.shape.NI, p.shape.NH, p.shape.NO, map[bool]string{true: " hidden nodes listed deepest-first", false: ""}[p.shape.Rev], len(p.shape.edges()), len(p.wrots), len(p.acts), len(p.inputs))
	}
	c.Rule = "all feed-forward edge sets over the listed node sets in which every neuron is reachable from a sensor: " + desc + "x 7 solver entry points on fresh instances (for two-output shapes also on a network rebuilt through NewNetwork with the output list reversed), and a sequence of 4 input vectors on one reused instance per entry point without flush, vs Kahn-order evaluation (1e-11 relative); weights from {0.5,-1.5,0.25,2} by rotation; non-trivial = distinct (shape, edge set) with all neurons reachable"
	type job struct {
		pi     int
		lo, hi uint64
	}
	var jobs []job
	for pi, p := range plans {
		total := uint64(1) << uint(len(p.shape.edges()))
		step := uint64(64)
		for lo := uint64(0); lo < total; lo += step {
			hi := lo + step
			if hi > total {
				hi = total
			}
			jobs = append(jobs, job{pi, lo, hi})
		}
	}
	parFor(len(jobs), func(ji int) {
		j := jobs[ji]
		p := plans[j.pi]
		if c.Expired() {
			c.MarkCapped("deadline reached before all edge sets were enumerated")
			return
		}
		var evals, excl, skips, nets int64
		maxDepth := 0
		for mask := j.lo; mask < j.hi; mask++ {
			counted := false
			for _, wr := range p.wrots {
				for _, ap := range p.acts {
					if seq := p.inputs; len(seq) >= 3 {
						cs := c12Case{p.shape, mask, wr, ap, nil}
						rf, done := c12EvalReuse(cs, [][]float64{seq[len(seq)-1], seq[1], seq[0], seq[2]})
						if done {
							evals += int64(len(c12Solvers) * 4)
							c.Count("reuse_sequences_evaluated", 1)
						}
						for _, f := range rf {
							ord := int64(bitsSet(mask))<<40 | int64(j.pi)<<32 | int64(mask)
							cs.Input = seq[0]
							c.ViolateOrd("C12/"+f[0], ord, f[1]+" for "+cs.describe(), &Replay{Scenario: "net", Params: map[string]interface{}{
								"nb": p.shape.NB, "ni": p.shape.NI, "nh": p.shape.NH, "no": p.shape.NO, "rev": b2i(p.shape.Rev), "mask": mask, "wrot": wr, "act": ap, "input": seq[0], "reuse": true}})
						}
					}
					for _, in := range p.inputs {
						cs := c12Case{p.shape, mask, wr, ap, in}
						fails, excluded, skipped, d := c12Eval(cs)
						if excluded {
							excl++
							goto nextMask
						}
						if skipped {
							skips++
							continue
						}
						if !counted {
							counted = true
							nets++
							c.Distinct(uint64(j.pi)<<40 | mask)
						}
						if d > maxDepth {
							maxDepth = d
						}
						evals += int64(len(c12Solvers))
						for _, f := range fails {
							ord := int64(bitsSet(mask))<<40 | int64(j.pi)<<32 | int64(mask)
							c.ViolateOrd("C12/"+f[0], ord, f[1]+" for "+cs.describe(), &Replay{Scenario: "net", Params: map[string]interface{}{
								"nb": p.shape.NB, "ni": p.shape.NI, "nh": p.shape.NH, "no": p.shape.NO, "rev": b2i(p.shape.Rev), "mask": mask, "wrot": wr, "act": ap, "input": in}})
						}
					}
				}
			}
		nextMask:
		}
		c.AddEval(evals)
		c.Count("edge_sets_excluded_unreachable_neuron", excl)
		c.Count("cases_skipped_discontinuity_within_rounding", skips)
		c.Count("networks_evaluated", nets)
		c.mu.Lock()
		if v, _ := c.Extra["max_depth"].(int); maxDepth > v {
			c.Extra["max_depth"] = maxDepth
		}
		c.mu.Unlock()
	})
	c12Long(c)
	c.Sample(c12Case{c12Shape{NB: 1, NI: 1, NH: 2, NO: 1}, 0b110100101, 0, 13, []float64{2}}.describe())
	c.Sample(map[string]interface{}{"solvers": c12Solvers})
	c.Assume("weights come from a non-saturating 4-value alphabet; cases where a step/sign neuron's input is within 1e-9 of its jump and not exactly representable are skipped (summation order is legitimately free there) and counted")
}

func bitsSet(m uint64) int {
	n := 0
	for ; m != 0; m &= m - 1 {
		n++
	}
	return n
}

func replayC12(c *Ctx, rp *Replay) (bool, string) {
	if rp.Scenario == "long" {
		rev, _ := rp.Params["reversed"].(bool)
		if fails, _ := c12LongEval(paramInt(rp, "n"), rev); len(fails) > 0 {
			return true, fails[0]
		}
		return false, fmt.Sprintf("chain of %d", paramInt(rp, "n"))
	}
	cs := c12Case{Shape: c12Shape{NB: paramInt(rp, "nb"), NI: paramInt(rp, "ni"), NH: paramInt(rp, "nh"), NO: paramInt(rp, "no"), Rev: paramInt(rp, "rev") == 1},
		WRot: paramInt(rp, "wrot"), ActPat: paramInt(rp, "act")}
	if v, ok := rp.Params["mask"].(float64); ok {
		cs.Mask = uint64(v)
	}
	if raw, ok := rp.Params["input"].([]interface{}); ok {
		for _, v := range raw {
			cs.Input = append(cs.Input, v.(float64))
		}
	}
	if b, _ := rp.Params["reuse"].(bool); b {
		seq := c12Inputs(cs.Shape.NI, true)
		rf, _ := c12EvalReuse(cs, [][]float64{seq[len(seq)-1], seq[1], seq[0], seq[2]})
		if len(rf) > 0 {
			return true, rf[0][1] + " for " + cs.describe()
		}
		return false, cs.describe()
	}
	fails, excluded, skipped, _ := c12Eval(cs)
	if excluded || skipped {
		return false, "case excluded/skipped"
	}
	if len(fails) > 0 {
		return true, fails[0][1] + " for " + cs.describe()
	}
	return false, cs.describe()
}
