package main

import (
	"fmt"
	"math"
	"sync/atomic"

	neatmath "github.com/yaricom/goNEAT/v4/neat/math"
	"github.com/yaricom/goNEAT/v4/neat/network"
)

// C18 — activation functions match their definitions, ranges and names.
//
// E4: every float32 bit pattern (thorough) / every float32 whose low 10
// mantissa bits are zero (quick), widened to float64 and walked in numeric
// order, plus breakpoint neighbourhoods and extreme float64 magnitudes, for
// every registered scalar function: closed form, range, monotonicity. All 256
// type codes and all names with single-character edits for the lookups. All
// vectors of length 1..3 over an 8-value alphabet for the module functions.

func init() { register("C18", "exploration", runC18, replayC18) }

type actSpec struct {
	code     neatmath.NodeActivationType
	name     string
	ref      func(x float64) float64
	lo, hi   float64
	monotone bool
	twice    bool // the argument appears twice in the formula (2 more ulps of slack for monotonicity)
}

func sig(k, shift float64) func(float64) float64 {
	return func(x float64) float64 { return 1 / (1 + math.Exp(-(k*x + shift))) }
}

var inf = math.Inf(1)

var c18Scalars = []actSpec{
	{neatmath.SigmoidPlainActivation, "SigmoidPlainActivation", sig(1, 0), 0, 1, true, false},
	{neatmath.SigmoidReducedActivation, "SigmoidReducedActivation", sig(0.5, 0), 0, 1, true, false},
	{neatmath.SigmoidBipolarActivation, "SigmoidBipolarActivation", func(x float64) float64 { return 2/(1+math.Exp(-4.924273*x)) - 1 }, -1, 1, true, false},
	{neatmath.SigmoidSteepenedActivation, "SigmoidSteepenedActivation", sig(4.924273, 0), 0, 1, true, false},
	{neatmath.SigmoidApproximationActivation, "SigmoidApproximationActivation", func(x float64) float64 {
		switch {
		case x < -4:
			return 0
		case x < 0:
			return (x + 4) * (x + 4) / 32
		case x < 4:
			return 1 - (x-4)*(x-4)/32
		}
		return 1
	}, 0, 1, true, true},
	{neatmath.SigmoidSteepenedApproximationActivation, "SigmoidSteepenedApproximationActivation", func(x float64) float64 {
		switch {
		case x < -1:
			return 0
		case x < 0:
			return (x + 1) * (x + 1) / 2
		case x < 1:
			return 1 - (x-1)*(x-1)/2
		}
		return 1
	}, 0, 1, true, true},
	{neatmath.SigmoidInverseAbsoluteActivation, "SigmoidInverseAbsoluteActivation", func(x float64) float64 { return 0.5 + 0.5*(x/(1+math.Abs(x))) }, 0, 1, true, true},
	{neatmath.SigmoidLeftShiftedActivation, "SigmoidLeftShiftedActivation", func(x float64) float64 { return 1 / (1 + math.Exp(-x-2.4621365)) }, 0, 1, true, false},
	{neatmath.SigmoidLeftShiftedSteepenedActivation, "SigmoidLeftShiftedSteepenedActivation", sig(4.924273, 2.4621365), 0, 1, true, false},
	{neatmath.SigmoidRightShiftedSteepenedActivation, "SigmoidRightShiftedSteepenedActivation", sig(4.924273, -2.4621365), 0, 1, true, false},
	{neatmath.TanhActivation, "TanhActivation", func(x float64) float64 { return math.Tanh(0.9 * x) }, -1, 1, true, false},
	{neatmath.GaussianBipolarActivation, "GaussianBipolarActivation", func(x float64) float64 { return 2*math.Exp(-(2.5*x)*(2.5*x)) - 1 }, -1, 1, false, false},
	{neatmath.GaussianActivation, "GaussianActivation", func(x float64) float64 { return math.Exp(-x * x) }, 0, 1, false, false},
	{neatmath.LinearActivation, "LinearActivation", func(x float64) float64 { return x }, -inf, inf, true, false},
	{neatmath.LinearAbsActivation, "LinearAbsActivation", func(x float64) float64 {
		if x < 0 {
			return -x
		}
		return x
	}, 0, inf, false, false},
	{neatmath.LinearClippedActivation, "LinearClippedActivation", func(x float64) float64 { return math.Max(-1, math.Min(1, x)) }, -1, 1, true, false},
	{neatmath.NullActivation, "NullActivation", func(x float64) float64 { return 0 }, 0, 0, false, false},
	{neatmath.SignActivation, "SignActivation", func(x float64) float64 {
		switch {
		case x < 0:
			return -1
		case x > 0:
			return 1
		}
		return 0
	}, -1, 1, false, false},
	{neatmath.SineActivation, "SineActivation", func(x float64) float64 { return math.Sin(2 * x) }, -1, 1, false, false},
	{neatmath.StepActivation, "StepActivation", func(x float64) float64 {
		if x < 0 {
			return 0
		}
		return 1
	}, 0, 1, true, false},
}

var c18Modules = []struct {
	code neatmath.NodeActivationType
	name string
	ref  func(in []float64) float64
}{
	{neatmath.MultiplyModuleActivation, "MultiplyModuleActivation", func(in []float64) float64 {
		p := 1.0
		for _, v := range in {
			p *= v
		}
		return p
	}},
	{neatmath.MaxModuleActivation, "MaxModuleActivation", func(in []float64) float64 {
		m := in[0]
		for _, v := range in[1:] {
			if v > m {
				m = v
			}
		}
		return m
	}},
	{neatmath.MinModuleActivation, "MinModuleActivation", func(in []float64) float64 {
		m := in[0]
		for _, v := range in[1:] {
			if v < m {
				m = v
			}
		}
		return m
	}},
}

func ulpDiff(a, b float64) float64 {
	if a == b {
		return 0
	}
	if math.IsNaN(a) || math.IsNaN(b) || math.IsInf(a, 0) || math.IsInf(b, 0) {
		return math.Inf(1)
	}
	m := math.Max(math.Abs(a), math.Abs(b))
	u := math.Nextafter(m, math.Inf(1)) - m
	if u == 0 || m < 1e-290 {
		u = 5e-324
		if math.Abs(a-b) <= 1e-300 {
			return 0
		}
	}
	return math.Abs(a-b) / u
}

// c18Point checks closed form and range at x; returns failure clause/message or "".
func c18Point(s *actSpec, x float64) (string, string) {
	got, err := neatmath.NodeActivators.ActivateByType(x, nil, s.code)
	if err != nil {
		return "error", fmt.Sprintf("%s(%g) returned error %v", s.name, x, err)
	}
	if math.IsNaN(got) || math.IsInf(got, 0) {
		return "nonfinite", fmt.Sprintf("%s(%g) = %g is not finite", s.name, x, got)
	}
	if got < s.lo || got > s.hi {
		return "range", fmt.Sprintf("%s(%g) = %g is outside the documented range [%g,%g]", s.name, x, got, s.lo, s.hi)
	}
	want := s.ref(x)
	// tolerance: 4 ulps, or 1e-12 relative plus 4e-16 absolute (the formulas subtract constants of
	// magnitude 1, so an algebraically identical rewrite may differ by a few ulps of 1.0 near zero)
	if ulpDiff(got, want) > 4 && math.Abs(got-want) > 1e-12*math.Max(math.Abs(got), math.Abs(want))+4e-16 {
		return "closed-form", fmt.Sprintf("%s(%g) = %g, closed form gives %g", s.name, x, got, want)
	}
	return "", ""
}

func c18Extras() []float64 {
	var xs []float64
	add := func(v float64) {
		xs = append(xs, v)
	}
	bps := []float64{0, -4, 4, -1, 1, 0.5, -0.5, 2.4621365, -2.4621365, 2.4621365 / 4.924273, -2.4621365 / 4.924273, math.Pi / 2, math.Pi / 4}
	for _, b := range bps {
		v := b
		add(v)
		up, dn := v, v
		for k := 0; k < 3; k++ {
			up = math.Nextafter(up, math.Inf(1))
			dn = math.Nextafter(dn, math.Inf(-1))
			add(up)
			add(dn)
		}
	}
	add(math.Copysign(0, -1))
	for _, m := range []float64{1e300, 1e-300, 5e-324, 1e200, 1e100, 700, 709.78, 710, 745, 746, 1e19, 36.7, 37, 19, 20} {
		add(m)
		add(-m)
	}
	for e := -300; e <= 300; e += 3 {
		v := math.Pow(10, float64(e))
		add(v)
		add(-v)
	}
	return xs
}

func runC18(c *Ctx) {
	step := uint64(1 << 10)
	if !c.Quick() {
		step = 1
	}
	c.Rule = fmt.Sprintf("scalar functions: every float32 bit pattern with the low %d bits zero (finite values, walked in numeric order so monotonicity is a comparison of numeric neighbours), widened to float64, plus +-{0,1,2,3} ulps around every breakpoint, -0.0, powers of ten 1e-300..1e300 and exp-overflow thresholds; x 20 registered functions: closed form within 4 ulps or 1e-12 relative + 4e-16 absolute, finite, inside documented range, non-decreasing (<=4 ulps slack) for the sigmoid family/tanh/linear/clipped/step. lookups: all 256 type codes and every registered name with every single-character deletion/substitution. modules: all vectors of length 1..3 over 8 values, through ActivateModuleByType, through network.ActivateModule on a control node under three link-weight patterns, and through a fast solver holding three modules of arity 3/2/1 (all 27 type assignments x 6 list orders x all 512 input vectors); re-registration of a registered type under its own name. non-trivial = distinct (function, input) pairs / distinct lookup keys", map[bool]int{true: 10, false: 0}[c.Quick()])
	total := (uint64(1) << 32) / step
	chunk := uint64(1 << 16)
	nChunks := int((total + chunk - 1) / chunk)
	var evals int64
	var capped int32
	parFor(nChunks, func(ci int) {
		if atomic.LoadInt32(&capped) != 0 {
			return
		}
		if ci%64 == 0 && c.Expired() {
			atomic.StoreInt32(&capped, 1)
			return
		}
		lo := uint64(ci) * chunk
		hi := lo + chunk
		if hi > total {
			hi = total
		}
		var n int64
		prev := make([]float64, len(c18Scalars))
		havePrev := false
		var prevX float64
		start := lo
		if lo > 0 {
			start = lo - 1 // overlap with the previous chunk for the neighbour comparison
		}
		for k := start; k < hi; k++ {
			var f float32
			if k*step < 0x80000000 {
				b := ^uint32(k * step)
				b &^= uint32(step - 1)
				f = math.Float32frombits(b)
			} else {
				f = math.Float32frombits(uint32(k*step) - 0x80000000)
			}
			x := float64(f)
			if math.IsNaN(x) || math.IsInf(x, 0) {
				havePrev = false
				continue
			}
			for si := range c18Scalars {
				s := &c18Scalars[si]
				n++
				if cl, msg := c18Point(s, x); cl != "" {
					c.ViolateOrd("C18/"+s.name+"/"+cl, int64(math.Abs(x)*1e3)&0x7fffffffffff, msg,
						&Replay{Scenario: "point", Params: map[string]interface{}{"fn": si, "bits": fmt.Sprintf("%016x", math.Float64bits(x))}})
				}
				got, _ := neatmath.NodeActivators.ActivateByType(x, nil, s.code)
				if s.monotone && havePrev && x >= prevX {
					slack := 4.0
					if s.twice {
						slack = 6
					}
					if got < prev[si] && ulpDiff(got, prev[si]) > slack {
						c.ViolateOrd("C18/"+s.name+"/monotone", int64(math.Abs(x)*1e3)&0x7fffffffffff, fmt.Sprintf("%s decreases: f(%g)=%g > f(%g)=%g", s.name, prevX, prev[si], x, got),
							&Replay{Scenario: "mono", Params: map[string]interface{}{"fn": si, "bits0": fmt.Sprintf("%016x", math.Float64bits(prevX)), "bits": fmt.Sprintf("%016x", math.Float64bits(x))}})
					}
				}
				prev[si] = got
			}
			prevX, havePrev = x, true
		}
		atomic.AddInt64(&evals, n)
	})
	if capped != 0 {
		c.MarkCapped("deadline reached before all float32 chunks were walked")
	}
	c.AddEval(evals)
	// extras (float64-only values)
	xs := c18Extras()
	for _, x := range xs {
		if math.Abs(x) > 1e300 {
			continue
		}
		for si := range c18Scalars {
			s := &c18Scalars[si]
			c.AddEval(1)
			if cl, msg := c18Point(s, x); cl != "" {
				c.ViolateOrd("C18/"+s.name+"/"+cl, int64(math.Abs(x)*1e3)&0x7fffffffffff, msg,
					&Replay{Scenario: "point", Params: map[string]interface{}{"fn": si, "bits": fmt.Sprintf("%016x", math.Float64bits(x))}})
			}
		}
	}
	// distinct count: measured as (#functions x #finite inputs walked) + extras; inputs are distinct by construction
	finite := evals / int64(len(c18Scalars))
	c.Extra["finite_float32_inputs_walked_per_function"] = finite
	c.Extra["float64_extras"] = len(xs)
	for si := range c18Scalars {
		for _, x := range xs[:8] {
			c.Distinct(hashString(fmt.Sprintf("%d/%x", si, math.Float64bits(x))))
		}
	}
	c.Extra["distinct_note"] = "distinct_nontrivial counts lookup keys, module vectors and a fixed sample of (function,input) pairs; the float32 walk visits finite_float32_inputs_walked_per_function distinct inputs per function"

	c18Lookups(c)
	c18ModulesCheck(c)
	c.Sample(map[string]interface{}{"fn": "StepActivation", "x": "-0.0", "closed_form": 1})
	c.Sample(map[string]interface{}{"fn": "SigmoidApproximationActivation", "x": math.Nextafter(-4, 0), "closed_form": c18Scalars[4].ref(math.Nextafter(-4, 0))})
	c.Sample(map[string]interface{}{"module": "MaxModuleActivation", "inputs": []float64{-1e19, -1e300}, "want": -1e19})
	c.Assume("float64 inputs that are not float32-representable are covered only by the breakpoint neighbourhoods and the exponent sweep")
}

// c18Factories: a freshly constructed factory agrees with the global one on every code and name, and
// registering a custom activator makes it resolvable in both directions without disturbing the rest.
func c18Factories(c *Ctx) {
	fresh := neatmath.NewNodeActivatorsFactory()
	for code := 0; code < 256; code++ {
		t := neatmath.NodeActivationType(code)
		n1, e1 := neatmath.NodeActivators.ActivationNameFromType(t)
		n2, e2 := fresh.ActivationNameFromType(t)
		c.AddEval(1)
		if n1 != n2 || (e1 == nil) != (e2 == nil) {
			c.ViolateOrd("C18/lookup/fresh-factory", int64(code), fmt.Sprintf("a fresh factory names code %d %q (err %v), the global one %q (err %v)", code, n2, e2, n1, e1), &Replay{Scenario: "code", Params: map[string]interface{}{"code": code}})
		}
		if e1 == nil {
			if back, err := fresh.ActivationTypeFromName(n1); err != nil || back != t {
				c.ViolateOrd("C18/lookup/fresh-factory-inverse", int64(code), fmt.Sprintf("a fresh factory resolves name %q to %d (err %v), want %d", n1, back, err, code), &Replay{Scenario: "code", Params: map[string]interface{}{"code": code}})
			}
		}
	}
	const custom = neatmath.NodeActivationType(100)
	fresh.Register(custom, func(x float64, _ []float64) float64 { return 2 * x }, "DoubleActivation")
	c.AddEval(1)
	if v, err := fresh.ActivateByType(21, nil, custom); err != nil || v != 42 {
		c.ViolateOrd("C18/register/value", 0, fmt.Sprintf("a registered custom activator returned %v (err %v), want 42", v, err), nil)
	}
	if n, err := fresh.ActivationNameFromType(custom); err != nil || n != "DoubleActivation" {
		c.ViolateOrd("C18/register/name", 0, fmt.Sprintf("the custom activator's name is %q (err %v)", n, err), nil)
	}
	if t, err := fresh.ActivationTypeFromName("DoubleActivation"); err != nil || t != custom {
		c.ViolateOrd("C18/register/type", 0, fmt.Sprintf("the custom activator's name resolves to %d (err %v)", t, err), nil)
	}
	if _, err := neatmath.NodeActivators.ActivationNameFromType(custom); err == nil {
		c.ViolateOrd("C18/register/leak", 0, "registering on a fresh factory made the type known to the global factory", nil)
	}
	// overriding the implementation of registered types under their own names keeps both directions
	fresh.Register(neatmath.TanhActivation, func(x float64, _ []float64) float64 { return -x }, "TanhActivation")
	fresh.RegisterModule(neatmath.MaxModuleActivation, func(in []float64, _ []float64) []float64 { return []float64{7} }, "MaxModuleActivation")
	for _, pr := range []struct {
		t neatmath.NodeActivationType
		n string
	}{{neatmath.TanhActivation, "TanhActivation"}, {neatmath.MaxModuleActivation, "MaxModuleActivation"}} {
		c.AddEval(1)
		n, e1 := fresh.ActivationNameFromType(pr.t)
		t, e2 := fresh.ActivationTypeFromName(pr.n)
		if e1 != nil || e2 != nil || n != pr.n || t != pr.t {
			c.ViolateOrd("C18/register/override", int64(pr.t), fmt.Sprintf("after registering type %d again under its own name %q: type->name gives %q (err %v), name->type gives %d (err %v)", pr.t, pr.n, n, e1, t, e2), nil)
		}
	}
	if v, err := fresh.ActivateByType(3, nil, neatmath.TanhActivation); err != nil || v != -3 {
		c.ViolateOrd("C18/register/override-value", 0, fmt.Sprintf("the overriding implementation is not the one invoked: got %v (err %v), want -3", v, err), nil)
	}
	for _, s := range c18Scalars {
		if n, err := fresh.ActivationNameFromType(s.code); err != nil || n != s.name {
			c.ViolateOrd("C18/register/disturbed", int64(s.code), fmt.Sprintf("after registering a custom activator code %d is named %q (err %v), want %q", s.code, n, err, s.name), nil)
		}
	}
}

func c18Lookups(c *Ctx) {
	c18Factories(c)
	scalar := map[neatmath.NodeActivationType]string{}
	module := map[neatmath.NodeActivationType]string{}
	for _, s := range c18Scalars {
		scalar[s.code] = s.name
	}
	for _, m := range c18Modules {
		module[m.code] = m.name
	}
	names := map[string]neatmath.NodeActivationType{}
	for code := 0; code < 256; code++ {
		t := neatmath.NodeActivationType(code)
		c.AddEval(3)
		c.Distinct(hashString(fmt.Sprint("code", code)))
		_, errS := neatmath.NodeActivators.ActivateByType(0.5, nil, t)
		_, isS := scalar[t]
		if (errS == nil) != isS {
			c.ViolateOrd(fmt.Sprintf("C18/lookup/scalar-code-%d", code), int64(code), fmt.Sprintf("ActivateByType(code %d): error=%v, registered scalar=%v", code, errS, isS),
				&Replay{Scenario: "code", Params: map[string]interface{}{"code": code}})
		}
		var errM error
		func() {
			defer func() {
				if r := recover(); r != nil {
					errM = fmt.Errorf("panic: %v", r)
				}
			}()
			_, errM = neatmath.NodeActivators.ActivateModuleByType([]float64{1, 2}, nil, t)
		}()
		_, isM := module[t]
		if (errM == nil) != isM {
			c.ViolateOrd(fmt.Sprintf("C18/lookup/module-code-%d", code), int64(code), fmt.Sprintf("ActivateModuleByType(code %d): error=%v, registered module=%v", code, errM, isM),
				&Replay{Scenario: "code", Params: map[string]interface{}{"code": code}})
		}
		name, errN := neatmath.NodeActivators.ActivationNameFromType(t)
		want, reg := scalar[t]
		if !reg {
			want, reg = module[t]
		}
		if (errN == nil) != reg || (reg && name != want) {
			c.ViolateOrd(fmt.Sprintf("C18/lookup/name-of-code-%d", code), int64(code), fmt.Sprintf("ActivationNameFromType(%d) = %q, err=%v; want %q registered=%v", code, name, errN, want, reg),
				&Replay{Scenario: "code", Params: map[string]interface{}{"code": code}})
		}
		if errN == nil {
			if prev, dup := names[name]; dup {
				c.ViolateOrd("C18/lookup/name-shared", int64(code), fmt.Sprintf("codes %d and %d share the name %q", prev, code, name), &Replay{Scenario: "code", Params: map[string]interface{}{"code": code}})
			}
			names[name] = t
			back, err := neatmath.NodeActivators.ActivationTypeFromName(name)
			if err != nil || back != t {
				c.ViolateOrd(fmt.Sprintf("C18/lookup/roundtrip-%d", code), int64(code), fmt.Sprintf("ActivationTypeFromName(%q) = %d, err=%v; want %d", name, back, err, code), &Replay{Scenario: "code", Params: map[string]interface{}{"code": code}})
			}
		}
	}
	all := map[string]neatmath.NodeActivationType{}
	for k, v := range scalar {
		all[v] = k
	}
	for k, v := range module {
		all[v] = k
	}
	for name, code := range all {
		got, err := neatmath.NodeActivators.ActivationTypeFromName(name)
		c.AddEval(1)
		if err != nil || got != code {
			c.Violate("C18/lookup/type-of-name-"+name, fmt.Sprintf("ActivationTypeFromName(%q) = %d err=%v, want %d", name, got, err, code), &Replay{Scenario: "name", Params: map[string]interface{}{"name": name}})
		}
		var variants []string
		for i := 0; i < len(name); i++ {
			variants = append(variants, name[:i]+name[i+1:], name[:i]+"X"+name[i+1:], name[:i]+string(name[i]^0x20)+name[i+1:])
		}
		variants = append(variants, "", name+" ", " "+name)
		for _, v := range variants {
			if _, ok := all[v]; ok {
				continue
			}
			c.AddEval(1)
			c.Distinct(hashString("name/" + v))
			if t, err := neatmath.NodeActivators.ActivationTypeFromName(v); err == nil {
				c.Violate("C18/lookup/unknown-name-accepted", fmt.Sprintf("ActivationTypeFromName(%q) = %d without error", v, t), &Replay{Scenario: "name", Params: map[string]interface{}{"name": v}})
			}
		}
	}
}

var c18ModVals = []float64{0, 1, -1, 2.5, -1e19, 1e19, -1e300, 1e300}

func c18ModuleEval(mi int, in []float64) (string, string) {
	m := c18Modules[mi]
	var out []float64
	var err error
	var pan interface{}
	func() {
		defer func() {
			if r := recover(); r != nil {
				pan = r
			}
		}()
		out, err = neatmath.NodeActivators.ActivateModuleByType(append([]float64(nil), in...), nil, m.code)
	}()
	if pan != nil || err != nil {
		return "error", fmt.Sprintf("%s(%v): err=%v panic=%v", m.name, in, err, pan)
	}
	want := m.ref(in)
	if len(out) != 1 || !(out[0] == want || (math.IsNaN(out[0]) && math.IsNaN(want))) {
		return "value", fmt.Sprintf("%s(%v) = %v, want %g", m.name, in, out, want)
	}
	return "", ""
}

// c18NetworkModule: the same module functions reached through network.ActivateModule (the entry point the
// standard solver uses): a control node whose incoming links carry the weights w reads the activations of
// its input nodes and must put the module function OF THOSE ACTIVATIONS on its output node.
func c18NetworkModule(mi int, in, w []float64) (string, string) {
	m := c18Modules[mi]
	ctrl := network.NewNNode(100, network.HiddenNeuron)
	ctrl.ActivationType = m.code
	for i, v := range in {
		src := network.NewSensorNode(i+1, false)
		src.SensorLoad(v)
		l := ctrl.AddIncoming(src, w[i%len(w)])
		_ = l
	}
	out := network.NewNNode(50, network.OutputNeuron)
	ctrl.AddOutgoing(out, w[0])
	var err error
	var pan interface{}
	func() {
		defer func() {
			if r := recover(); r != nil {
				pan = r
			}
		}()
		err = network.ActivateModule(ctrl, neatmath.NodeActivators)
	}()
	if pan != nil || err != nil {
		return "network-module-error", fmt.Sprintf("ActivateModule(%s, inputs %v): err=%v panic=%v", m.name, in, err, pan)
	}
	want := m.ref(in)
	if got := out.Activation; !(got == want || (math.IsNaN(got) && math.IsNaN(want))) {
		return "network-module-value", fmt.Sprintf("ActivateModule with %s over input activations %v (link weights %v) put %g on the output node, the %s of the inputs is %g", m.name, in, w, got, m.name, want)
	}
	return "", ""
}

// c18FastModules: the module functions reached through the fast solver, which evaluates a LIST of
// modules per step: three modules of arity 3, 2 and 1 over linear hidden neurons that carry the loaded
// inputs, every assignment of {product, max, min} to them, every order of the list, every input vector.
func c18FastModules(c *Ctx) {
	lin := neatmath.LinearActivation
	acts := []neatmath.NodeActivationType{lin, lin, lin, lin, lin, lin, lin, lin, lin} // 3 inputs, 3 outputs, 3 hidden
	arities := [][]int{{6, 7, 8}, {6, 7}, {8}}
	perms := [][]int{{0, 1, 2}, {0, 2, 1}, {1, 0, 2}, {1, 2, 0}, {2, 0, 1}, {2, 1, 0}}
	V := len(c18ModVals)
	for types := 0; types < 27; types++ {
		for pi, perm := range perms {
			var mods []*network.FastControlNode
			for _, k := range perm {
				mi := (types / []int{1, 3, 9}[k]) % 3
				mods = append(mods, &network.FastControlNode{ActivationType: c18Modules[mi].code, InputIndexes: arities[k], OutputIndexes: []int{3 + k}})
			}
			conns := []*network.FastNetworkLink{{SourceIndex: 0, TargetIndex: 6, Weight: 1}, {SourceIndex: 1, TargetIndex: 7, Weight: 1}, {SourceIndex: 2, TargetIndex: 8, Weight: 1}}
			solver := network.NewFastModularNetworkSolver(0, 3, 3, 9, acts, conns, make([]float64, 9), mods)
			for idx := 0; idx < V*V*V; idx++ {
				in := []float64{c18ModVals[idx%V], c18ModVals[idx/V%V], c18ModVals[idx/V/V%V]}
				c.AddEval(1)
				_, _ = solver.Flush()
				var outs []float64
				var err error
				func() {
					defer func() {
						if r := recover(); r != nil {
							err = fmt.Errorf("panic: %v", r)
						}
					}()
					if err = solver.LoadSensors(in); err == nil {
						if _, err = solver.ForwardSteps(1); err == nil {
							outs = solver.ReadOutputs()
						}
					}
				}()
				ord := int64(types)<<16 | int64(pi)<<12 | int64(idx)
				rp := &Replay{Scenario: "fast-modules", Params: map[string]interface{}{"types": types, "perm": pi, "idx": idx}}
				if err != nil || len(outs) != 3 {
					c.ViolateOrd("C18/fast-solver-modules/error", ord, fmt.Sprintf("fast solver with three modules failed on inputs %v: %v (outputs %v)", in, err, outs), rp)
					continue
				}
				for k := 0; k < 3; k++ {
					mi := (types / []int{1, 3, 9}[k]) % 3
					var args []float64
					for _, h := range arities[k] {
						args = append(args, in[h-6])
					}
					want := c18Modules[mi].ref(args)
					if !(outs[k] == want || (math.IsNaN(outs[k]) && math.IsNaN(want))) {
						c.ViolateOrd("C18/"+c18Modules[mi].name+"/fast-solver-module-value", ord, fmt.Sprintf("fast solver, modules listed in order %v: the %s module over inputs %v gave %g, want %g (all loaded inputs %v)", perm, c18Modules[mi].name, args, outs[k], want, in), rp)
						break
					}
				}
			}
		}
	}
}

func c18ModulesCheck(c *Ctx) {
	c18FastModules(c)
	V := len(c18ModVals)
	for length := 1; length <= 3; length++ {
		n := 1
		for i := 0; i < length; i++ {
			n *= V
		}
		for idx := 0; idx < n; idx++ {
			in := make([]float64, length)
			k := idx
			for i := range in {
				in[i] = c18ModVals[k%V]
				k /= V
			}
			for mi := range c18Modules {
				c.AddEval(1)
				c.Distinct(hashString(fmt.Sprint("mod", mi, in)))
				if cl, msg := c18ModuleEval(mi, in); cl != "" {
					c.ViolateOrd("C18/"+c18Modules[mi].name+"/"+cl, int64(length)<<20|int64(idx), msg,
						&Replay{Scenario: "module", Params: map[string]interface{}{"module": mi, "idx": idx, "len": length}})
				}
				for wi, w := range [][]float64{{1, 1, 1}, {0.5, 3, -2}, {2, 2, 2}} {
					c.AddEval(1)
					if cl, msg := c18NetworkModule(mi, in, w); cl != "" {
						c.ViolateOrd("C18/"+c18Modules[mi].name+"/"+cl, int64(length)<<20|int64(idx)<<2|int64(wi), msg,
							&Replay{Scenario: "module", Params: map[string]interface{}{"module": mi, "idx": idx, "len": length, "network": true, "weights": wi}})
					}
				}
			}
		}
	}
}

func replayC18(c *Ctx, rp *Replay) (bool, string) {
	parse := func(key string) float64 {
		var b uint64
		fmt.Sscanf(paramStr(rp, key), "%x", &b)
		return math.Float64frombits(b)
	}
	switch rp.Scenario {
	case "point":
		s := &c18Scalars[paramInt(rp, "fn")]
		if cl, msg := c18Point(s, parse("bits")); cl != "" {
			return true, msg
		}
		return false, s.name
	case "mono":
		s := &c18Scalars[paramInt(rp, "fn")]
		a, _ := neatmath.NodeActivators.ActivateByType(parse("bits0"), nil, s.code)
		b, _ := neatmath.NodeActivators.ActivateByType(parse("bits"), nil, s.code)
		if b < a && ulpDiff(a, b) > 6 {
			return true, fmt.Sprintf("%s decreases: %g then %g", s.name, a, b)
		}
		return false, s.name
	case "fast-modules":
		sub := newCtx(c.ID, c.Tier, c.Level)
		c18FastModules(sub)
		if sub.ViolationCount() > 0 {
			return true, sub.violations[0].Msg
		}
		return false, "fast-solver modules consistent"
	case "module":
		V := len(c18ModVals)
		in := make([]float64, paramInt(rp, "len"))
		k := paramInt(rp, "idx")
		for i := range in {
			in[i] = c18ModVals[k%V]
			k /= V
		}
		if cl, msg := c18ModuleEval(paramInt(rp, "module"), in); cl != "" {
			return true, msg
		}
		return false, fmt.Sprint(in)
	}
	// lookups: re-run the whole (tiny) lookup enumeration
	sub := newCtx(c.ID, c.Tier, c.Level)
	c18Lookups(sub)
	if sub.ViolationCount() > 0 {
		return true, sub.violations[0].Msg
	}
	return false, "lookups consistent"
}
